"""Shared python side of the CHANNEL-HISTORY layer of C04 / C05.

* run_punish_harness(ctx): runs harness/lnwallet/verif_punish_test.go (TestVerifPunish,
  injected together with verif_chan_test.go) on the tree under test and returns the decoded
  cases.  The trace is cached under build/ keyed by (seed, tier, env, harness sources, HEAD
  and working-tree diff of the repo under test) so that `./check C04` followed by
  `./check C05` runs the Go side once; each check works alone.
* implementation-side predicates (no model involved), evaluated on the verdicts of the REAL
  script engine, the REAL NewBreachRetribution / New*CloseSummary and the descriptor dumps.
* Coq terms for Channel/PunishExec.v.
"""
import hashlib
import json
import os
import shutil
import time

from lib import verif as _v
from lib.verif import run_harness, cZ, cnat, cbool, clist, copt, cN
from props import chan_common as cc
from props import chan_model as cm

PKG = "lnwallet"
FILES = ["lnwallet/verif_chan_test.go", "lnwallet/verif_punish_test.go"]
TEST = "^TestVerifPunish$"
WARM = [{"pkg": PKG, "files": FILES}]
IMPORTS = ("From Coq Require Import List ZArith NArith Bool.\nImport ListNotations.\n"
           "From LV Require Import Channel.Model Channel.Resync Channel.Exec Channel.Punish "
           "Channel.PunishExec.\n")
TARGETS_COMMON = ["theories/Channel/Punish.vo", "theories/Channel/PunishProofs.vo",
                  "theories/Channel/PunishExec.vo", "theories/Channel/PunishExamples.vo"]
KIND04 = {"to_remote": 1, "to_local": 2, "htlc_out": 3, "htlc_in": 4}
CACHE_MAX_AGE = 3600


# ---------------------------------------------------------------------------
# harness (cached)


def _tree_key():
    """Identity of the lnd tree under test: HEAD + tracked diff + untracked go files."""
    h = hashlib.sha1()
    h.update(os.path.realpath(_v.REPO).encode())
    for cmd in (["git", "rev-parse", "HEAD"], ["git", "diff", "HEAD"],
                ["git", "status", "--porcelain"]):
        rc, out = _v.sh(cmd, cwd=_v.REPO, timeout=120)
        h.update(b"\0%d\0" % rc)
        h.update(out.encode(errors="replace"))
        if cmd[1] == "status":
            for line in out.splitlines():
                if line.startswith("??"):
                    p = os.path.join(_v.REPO, line[3:].strip())
                    if os.path.isfile(p):
                        try:
                            h.update(open(p, "rb").read())
                        except OSError:
                            pass
    return h.hexdigest()


def _cache_key(env):
    h = hashlib.sha1()
    h.update(json.dumps(env, sort_keys=True).encode())
    for f in FILES + ["_util/verif_util_test.go.tmpl"]:
        h.update(open(os.path.join(_v.ROOT, "harness", f), "rb").read())
    h.update(_tree_key().encode())
    return h.hexdigest()[:20]


def _split_rows(raw, info):
    """Case rows (expanded); the state-hint probe row of the harness goes to info["hint_probe"]."""
    rows = []
    for r in raw:
        if "hint_probe" in r:
            info["hint_probe"] = r["hint_probe"]
        else:
            for k in ("samples", "revoked", "sorts", "gaps"):
                if r.get(k) is None:       # a Go nil slice (e.g. a schedule aborted at once)
                    r[k] = []
            rows.append(cc.expand_row(r))
    return rows


def run_punish_harness(ctx, env=None, suffix="", timeout=2400, use_cache=True):
    """Returns (rows, info).  rows is None when the harness could not be run."""
    e = {"VERIF_SEED": str(ctx.seed), "VERIF_TIER": ctx.tier}
    for k in ("VERIF_CASES", "VERIF_MAXSTEPS", "VERIF_CHAN_TYPES", "VERIF_FIRST_CASE",
              "VERIF_PUNISH_SAMPLES", "VERIF_PUNISH_NOAMT", "VERIF_CHAN_SCRIPT"):
        if os.environ.get(k):
            e[k] = os.environ[k]
    if env:
        e.update(env)
    info = {"cached": False}
    cache = None
    if use_cache and not os.environ.get("VERIF_NO_CACHE"):
        cdir = os.path.join(_v.BUILD, "punish_cache")
        os.makedirs(cdir, exist_ok=True)
        cache = os.path.join(cdir, _cache_key(e) + ".jsonl")
        # drop stale entries
        for f in os.listdir(cdir):
            p = os.path.join(cdir, f)
            try:
                if time.time() - os.path.getmtime(p) > CACHE_MAX_AGE:
                    os.remove(p)
            except OSError:
                pass
        if os.path.exists(cache):
            rows = _split_rows(_v.read_jsonl(cache), info)
            if rows:
                info["cached"] = True
                info["trace"] = cache
                return rows, info
    t0 = time.time()
    uid = ctx.uid("_pun" + suffix + "p%d" % os.getpid())
    rc, trace, out = run_harness(uid, PKG, FILES, TEST, env=e, timeout=timeout)
    info.update({"rc": rc, "harness_s": round(time.time() - t0, 1), "trace": trace})
    rows = _split_rows(_v.read_jsonl(trace), info)
    if rc != 0 or not rows:
        ctx.violation("harness_failed", "TestVerifPunish", {"rc": rc, "log": out[-4000:]},
                      signature="harness", failing_input=False)
        return None, info
    if cache:
        tmp = cache + ".tmp%d" % os.getpid()
        shutil.copyfile(trace, tmp)
        os.replace(tmp, cache)
    try:
        os.remove(trace)
    except OSError:
        pass
    shutil.rmtree(os.path.join(_v.BUILD, "overlay", uid), ignore_errors=True)
    return rows, info


# ---------------------------------------------------------------------------
# descriptor-level expectations (python, independent of the Coq model)


def other(p):
    return "b" if p == "a" else "a"


def fee_for_weight(rate, w):
    return rate * w // 1000


def expected_outputs(cfg, k, owner):
    """From a commit dump whose viewer is `owner` (our_bal = owner's balance):
    dict(own=sat|None, oth=sat|None, n_anchor, htlcs=[(offered_by_owner, sat, amt_msat, expiry,
    hash_id, htlc_index)]) of the outputs the transaction has."""
    dust = cfg[owner]["dust"]
    own_sat = k["our_bal"] // 1000
    oth_sat = k["their_bal"] // 1000
    own = own_sat if own_sat >= dust else None
    oth = oth_sat if oth_sat >= dust else None
    hs = [(h[0] == 0, h[1] // 1000, h[1], h[3], h[4], h[2]) for h in k["htlcs"] if h[5]]
    n_anchor = 0
    if cfg["anchors"]:
        n_anchor = (1 if (own is not None or hs) else 0) + (1 if (oth is not None or hs) else 0)
    return {"own": own, "oth": oth, "n_anchor": n_anchor, "htlcs": hs}


def expected_outputs_viewer(cfg, k, owner, viewer):
    """Same, for a dump whose viewer may be the counterparty of the owner."""
    if viewer == owner:
        return expected_outputs(cfg, k, owner)
    sw = dict(k)
    sw["our_bal"], sw["their_bal"] = k["their_bal"], k["our_bal"]
    sw["htlcs"] = [[1 - h[0]] + list(h[1:]) for h in k["htlcs"]]
    return expected_outputs(cfg, sw, owner)


def second_level_fee(cfg, k, offered_by_owner):
    w = cfg["htlc_timeout_weight"] if offered_by_owner else cfg["htlc_success_weight"]
    return fee_for_weight(k["fee_per_kw"], w)


# ---------------------------------------------------------------------------
# C04 predicates


def _variants(e):
    return {v["v"]: v for v in e.get("variants", [])}


def pred_c04_entry(row, e):
    """Failures (strings) of one punished revoked height."""
    fails = []
    cfg = row["cfg"]
    cheater, h = e["cheater"], e["h"]
    victim = other(cheater)
    tag = "cheater=%s h=%d" % (cheater, h)
    if e["hint"] != h:
        fails.append("%s: state hint decodes to %s" % (tag, e["hint"]))
    outs = e["outs"]
    exp = expected_outputs(cfg, e["commit"], cheater)
    # the captured transaction itself vs its descriptor (h = 0 is the fixture's transaction)
    if h > 0:
        want = sorted(([exp["own"]] if exp["own"] is not None else [])
                      + ([exp["oth"]] if exp["oth"] is not None else [])
                      + [cfg["anchor_size"]] * exp["n_anchor"] + [x[1] for x in exp["htlcs"]])
        if sorted(outs) != want:
            fails.append("%s: outputs %s of the revoked transaction differ from its descriptor %s"
                         % (tag, sorted(outs), want))
    # revocation log entry vs transaction
    for name in ("revlog", "revlog_reload"):
        rl = e.get(name)
        if rl is None:
            continue
        if rl.get("err") or rl.get("legacy") is not None:
            fails.append("%s: %s unreadable: %s" % (tag, name, rl))
            continue
        if not rl["txid_ok"]:
            fails.append("%s: %s.CommitTxHash is not the revoked transaction" % (tag, name))
        idxs = []
        for fld, amt_fld, want in (("our_idx", "our_amt", exp["oth"]), ("their_idx", "their_amt", exp["own"])):
            i = rl[fld]
            if want is None:
                if i != 0xffff:
                    fails.append("%s: %s.%s = %d but the descriptor has no such output" % (tag, name, fld, i))
                continue
            if i == 0xffff or i >= len(outs):
                fails.append("%s: %s.%s = %d, the output exists (%d sat)" % (tag, name, fld, i, want))
                continue
            idxs.append(i)
            if h > 0 and outs[i] != want:
                fails.append("%s: %s.%s points at %d sat, expected %d" % (tag, name, fld, outs[i], want))
            if h > 0 and rl[amt_fld] is not None and rl[amt_fld] != outs[i]:
                fails.append("%s: %s.%s = %d, transaction output is %d" % (tag, name, amt_fld, rl[amt_fld], outs[i]))
            if cfg["no_amt_data"] and rl[amt_fld] is not None:
                fails.append("%s: %s stores %s although NoRevLogAmtData is set" % (tag, name, amt_fld))
            if not cfg["no_amt_data"] and rl[amt_fld] is None:
                fails.append("%s: %s lacks %s" % (tag, name, amt_fld))
        got = []
        for inc, amt, oi, exp_, hid in rl["htlcs"]:
            if oi >= len(outs) or outs[oi] != amt:
                fails.append("%s: %s HTLC entry (%d sat, index %d) does not match output %s"
                             % (tag, name, amt, oi, outs[oi] if oi < len(outs) else None))
            idxs.append(oi)
            # incoming for the victim = offered by the cheater (owner)
            got.append((inc == 1, amt, exp_, hid))
        if sorted(got) != sorted((x[0], x[1], x[3], x[4]) for x in exp["htlcs"]):
            fails.append("%s: %s HTLC entries %s differ from the on-transaction HTLCs of the descriptor %s"
                         % (tag, name, sorted(got), sorted((x[0], x[1], x[3], x[4]) for x in exp["htlcs"])))
        if len(set(idxs)) != len(idxs):
            fails.append("%s: %s output indexes collide: %s" % (tag, name, idxs))
    # retribution variants
    vs = _variants(e)
    lists = {}
    any_idx = exp["own"] is not None or exp["oth"] is not None
    for name, v in vs.items():
        nil = name.startswith("nil")
        err = v.get("err")
        if nil and cfg["no_amt_data"] and any_idx:
            if err != "revlog_data_missing":
                fails.append("%s/%s: expected ErrRevLogDataMissing, got %s" % (tag, name, err))
            continue
        if err is not None:
            fails.append("%s/%s: NewBreachRetribution failed: %s" % (tag, name, err))
            continue
        if not v.get("breach_txid_ok"):
            fails.append("%s/%s: BreachTxHash differs from the revoked transaction" % (tag, name))
        ins = v.get("inputs") or []
        fixture = nil and h == 0     # height-0 balances of the fixture differ from its transaction
        for i in ins:
            if i["ok"] != "" and not fixture:
                fails.append("%s/%s: script engine rejects justice input %s (%s, output %s, %s sat): %s"
                             % (tag, name, i["kind"], i["wt"], i["idx"], i["amt"], i["ok"]))
            if h > 0 and i.get("tx_amt") is not None and i["amt"] != i["tx_amt"]:
                fails.append("%s/%s: %s amount %d, transaction output %d"
                             % (tag, name, i["kind"], i["amt"], i["tx_amt"]))
        claimed = [i["idx"] for i in ins]
        if len(set(claimed)) != len(claimed):
            fails.append("%s/%s: an output is claimed twice: %s" % (tag, name, claimed))
        unclaimed = [outs[j] for j in range(len(outs)) if j not in set(claimed)]
        if len(unclaimed) != exp["n_anchor"] or any(u != cfg["anchor_size"] for u in unclaimed):
            fails.append("%s/%s: outputs left unclaimed %s, expected %d anchor(s)"
                         % (tag, name, unclaimed, exp["n_anchor"]))
        # kinds and amounts against the descriptor
        if h > 0:
            want = sorted(([(1, exp["oth"])] if exp["oth"] is not None else [])
                          + ([(2, exp["own"])] if exp["own"] is not None else [])
                          + [(4 if x[0] else 3, x[1]) for x in exp["htlcs"]])
            got = sorted((KIND04[i["kind"]], i["amt"]) for i in ins)
            if got != want:
                fails.append("%s/%s: breached outputs %s, descriptor says %s" % (tag, name, got, want))
        lists[name] = sorted((KIND04[i["kind"]], i["idx"]) for i in ins)
        for s in v.get("second_level") or []:
            if s["ok"] != "":
                fails.append("%s/%s: second-level justice input rejected (%s, output %s): %s"
                             % (tag, name, s["wt"], s["idx"], s["ok"]))
    if len({json.dumps(x) for x in lists.values()}) > 1:
        fails.append("%s: variants disagree on the breached outputs: %s" % (tag, lists))
    return fails


def pred_c04(row):
    fails = []
    for e in row.get("revoked", []):
        if e.get("acked"):
            fails += pred_c04_entry(row, e)
    return fails


# ---------------------------------------------------------------------------
# C05 predicates


def _check_sweep(tag, what, t, fails):
    if t.get("ok") != "":
        fails.append("%s: script engine rejects the %s sweep: %s" % (tag, what, t.get("ok")))
    if t.get("amt") is not None and t.get("sd_amt") is not None and t["amt"] != t["sd_amt"]:
        fails.append("%s: %s sign descriptor says %d sat, the output holds %d"
                     % (tag, what, t["sd_amt"], t["amt"]))


def pred_local(row, p, rep, commit, tag):
    """p's own commitment confirms (NewLocalForceCloseSummary)."""
    fails = []
    cfg = row["cfg"]
    h = rep["h"]
    if rep.get("err"):
        return ["%s: NewLocalForceCloseSummary failed: %s" % (tag, rep["err"])]
    if rep.get("fund_ok") not in ("", "skipped_h0"):
        fails.append("%s: own commitment does not spend the funding output: %s (%s)"
                     % (tag, rep.get("fund_ok"), rep.get("sign_err")))
    exp = expected_outputs(cfg, commit, p)
    outs = rep["outs"]
    covered = []
    total = 0
    tl = rep.get("to_local")
    if (tl is None) != (exp["own"] is None) and h > 0:
        fails.append("%s: to_local resolution %s, descriptor balance output %s" % (tag, tl, exp["own"]))
    if tl is not None:
        _check_sweep(tag, "to_local", tl, fails)
        covered.append(tl["idx"])
        total += tl.get("amt") or 0
        if tl.get("csv") != cfg["csv"][p] or tl.get("seq") != cfg["csv"][p]:
            fails.append("%s: to_local delay %s / sequence %s, channel CSV is %s"
                         % (tag, tl.get("csv"), tl.get("seq"), cfg["csv"][p]))
        if h > 0 and tl.get("amt") != exp["own"]:
            fails.append("%s: to_local holds %s sat, descriptor says %s" % (tag, tl.get("amt"), exp["own"]))
    an = rep.get("anchor")
    if an is not None:
        _check_sweep(tag, "anchor", an, fails)
        covered.append(an["idx"])
    got = []
    for x in rep.get("htlcs", []):
        what = "HTLC %s (%s)" % (x.get("htlc_index"), "received" if x["inc"] else "offered")
        if x.get("second_ok") != "":
            fails.append("%s: script engine rejects the second-level tx of %s: %s" % (tag, what, x.get("second_ok")))
            continue
        covered.append(x["out_idx"])
        total += x["amt"]
        if x.get("sweep_ok") != "":
            fails.append("%s: script engine rejects the sweep of the second-level output of %s: %s"
                         % (tag, what, x.get("sweep_ok")))
        if x["seq"] != cfg["second_level_seq"]:
            fails.append("%s: second-level tx of %s has sequence %d, expected %d"
                         % (tag, what, x["seq"], cfg["second_level_seq"]))
        if not x["inc"] and x["lock"] != x["expiry"]:
            fails.append("%s: timeout tx of %s has locktime %d, expiry is %d" % (tag, what, x["lock"], x["expiry"]))
        if x["inc"] and x["lock"] != 0:
            fails.append("%s: success tx of %s has locktime %d" % (tag, what, x["lock"]))
        if x.get("csv") != cfg["csv"][p] or x.get("sweep_seq") != cfg["csv"][p]:
            fails.append("%s: second-level output of %s: delay %s / sequence %s, channel CSV is %s"
                         % (tag, what, x.get("csv"), x.get("sweep_seq"), cfg["csv"][p]))
        if x.get("sweep_sd_amt") != x.get("second_amt"):
            fails.append("%s: second-level sign descriptor of %s says %s sat, output holds %s"
                         % (tag, what, x.get("sweep_sd_amt"), x.get("second_amt")))
        if x.get("second_amt", 0) < cfg[p]["dust"]:
            fails.append("%s: second-level output of %s is %s sat, below the dust limit %d"
                         % (tag, what, x.get("second_amt"), cfg[p]["dust"]))
        got.append((x["inc"] == 0, x["amt"], x["second_amt"]))
    if h > 0:
        want = sorted((o, sat, sat - second_level_fee(cfg, commit, o)) for (o, sat, _, _, _, _) in exp["htlcs"])
        if sorted(got) != want:
            fails.append("%s: HTLC resolutions (offered, amount, second-level amount) %s, descriptor says %s"
                         % (tag, sorted(got), want))
        claim = (exp["own"] or 0) + sum(x[1] for x in exp["htlcs"])
        if total != claim:
            fails.append("%s: resolutions claim %d sat, balance + on-transaction HTLCs = %d" % (tag, total, claim))
    if len(set(covered)) != len(covered):
        fails.append("%s: an output is covered twice: %s" % (tag, covered))
    if h > 0:
        rest = sorted(outs[j] for j in range(len(outs)) if j not in set(covered))
        want_rest = sorted(([exp["oth"]] if exp["oth"] is not None else [])
                           + [cfg["anchor_size"]] * max(0, exp["n_anchor"] - (1 if an is not None else 0)))
        if rest != want_rest:
            fails.append("%s: outputs not covered by any resolution %s, expected only the counterparty's "
                         "(%s)" % (tag, rest, want_rest))
    return fails


def pred_remote(row, p, rep, tag):
    """the counterparty's current / pending commitment confirms (NewUnilateralCloseSummary)."""
    fails = []
    cfg = row["cfg"]
    h = rep["h"]
    if rep.get("err"):
        return ["%s: NewUnilateralCloseSummary failed: %s" % (tag, rep["err"])]
    q = other(p)
    if rep.get("peer_holds"):
        if rep.get("fund_ok") not in ("", "skipped_h0"):
            fails.append("%s: the counterparty's own signed transaction does not spend the funding "
                         "output: %s" % (tag, rep.get("fund_ok")))
        if rep.get("peer_txid_match") is False:
            fails.append("%s: the transaction the counterparty holds differs from the one recorded" % tag)
    commit = rep.get("commit")
    if commit is None:
        fails.append("%s: no descriptor for this commitment in the remote chain" % tag)
        return fails
    exp = expected_outputs_viewer(cfg, commit, q, p)     # owner q; exp["oth"] is p's output
    outs = rep["outs"]
    covered, total = [], 0
    tr = rep.get("to_remote")
    if (tr is None) != (exp["oth"] is None) and h > 0:
        fails.append("%s: to_remote resolution %s, descriptor balance output %s" % (tag, tr, exp["oth"]))
    if tr is not None:
        _check_sweep(tag, "to_remote", tr, fails)
        covered.append(tr["idx"])
        total += tr.get("amt") or 0
        if tr.get("seq") != tr.get("csv"):
            fails.append("%s: to_remote sequence %s, maturity delay %s" % (tag, tr.get("seq"), tr.get("csv")))
        if h > 0 and tr.get("amt") != exp["oth"]:
            fails.append("%s: to_remote holds %s sat, descriptor says %s" % (tag, tr.get("amt"), exp["oth"]))
    an = rep.get("anchor")
    if an is not None:
        _check_sweep(tag, "anchor", an, fails)
        covered.append(an["idx"])
    got = []
    for x in rep.get("htlcs", []):
        what = "HTLC %s (%s)" % (x.get("htlc_index"), "received" if x["inc"] else "offered")
        if x.get("claim_ok") != "":
            fails.append("%s: script engine rejects the direct claim of %s: %s" % (tag, what, x.get("claim_ok")))
            continue
        covered.append(x["out_idx"])
        total += x["amt"]
        if x.get("sd_amt") != x["amt"]:
            fails.append("%s: sign descriptor of %s says %s sat, output holds %d" % (tag, what, x.get("sd_amt"), x["amt"]))
        if x["seq"] != cfg["second_level_seq"] or x.get("csv") != cfg["second_level_seq"]:
            fails.append("%s: claim of %s has sequence %s (resolution delay %s), expected %d"
                         % (tag, what, x["seq"], x.get("csv"), cfg["second_level_seq"]))
        if not x["inc"] and x["lock"] != x["expiry"]:
            fails.append("%s: timeout claim of %s has locktime %s, expiry is %s" % (tag, what, x["lock"], x["expiry"]))
        if x["inc"] and x["lock"] != 0:
            fails.append("%s: success claim of %s has locktime %s" % (tag, what, x["lock"]))
        # offered by p <=> not offered by the owner q
        got.append((x["inc"] == 0, x["amt"]))
    if h > 0:
        want = sorted((not o, sat) for (o, sat, _, _, _, _) in exp["htlcs"])
        if sorted(got) != want:
            fails.append("%s: HTLC resolutions (offered by us, amount) %s, descriptor says %s"
                         % (tag, sorted(got), want))
        claim = (exp["oth"] or 0) + sum(x[1] for x in exp["htlcs"])
        if total != claim:
            fails.append("%s: resolutions claim %d sat, balance + on-transaction HTLCs = %d" % (tag, total, claim))
        rest = sorted(outs[j] for j in range(len(outs)) if j not in set(covered))
        want_rest = sorted(([exp["own"]] if exp["own"] is not None else [])
                           + [cfg["anchor_size"]] * max(0, exp["n_anchor"] - (1 if an is not None else 0)))
        if rest != want_rest:
            fails.append("%s: outputs not covered by any resolution %s, expected only the counterparty's (%s)"
                         % (tag, rest, want_rest))
    if len(set(covered)) != len(covered):
        fails.append("%s: an output is covered twice: %s" % (tag, covered))
    return fails


def c05_reports(row):
    """[(kind, p, report, commit dump, tag)] of every close report of a case."""
    out = []
    for e in row.get("revoked", []):
        if e.get("local") is not None:
            out.append(("local", e["cheater"], e["local"], e["commit"],
                        "own commitment of %s at height %d" % (e["cheater"], e["h"])))
    for s in row.get("samples", []):
        if "err" in s:
            out.append(("error", s["p"], {"err": s["err"], "h": -1}, None,
                        "sample of %s at step %d" % (s["p"], s["at"])))
            continue
        where = "%s at step %d%s" % (s["p"], s["at"], " (reloaded)" if s["reload"] else "")
        out.append(("local", s["p"], s["local"], s["local"].get("commit"), "own commitment of " + where))
        out.append(("remote", s["p"], s["remote"], s["remote"].get("commit"),
                    "counterparty's current commitment seen by " + where))
        if s.get("pending") is not None:
            out.append(("pending", s["p"], s["pending"], s["pending"].get("commit"),
                        "counterparty's PENDING commitment seen by " + where))
    return out


def pred_c05(row):
    fails = []
    for kind, p, rep, commit, tag in c05_reports(row):
        if kind == "error":
            fails.append("%s: %s" % (tag, rep["err"]))
        elif kind == "local":
            fails += pred_local(row, p, rep, commit, tag)
        else:
            fails += pred_remote(row, p, rep, tag)
    return fails


# ---------------------------------------------------------------------------
# Coq terms (Channel/PunishExec.v)


def xops(case):
    """(list of xop terms for the ops the real pair executed successfully, reason the replay
    stops early or None)"""
    out, reason = [], None
    pb = cm.pb
    for st in case["steps"]:
        op, res = st["op"], st["res"]
        k = op[0]
        if k == "add":
            if res == "ok":
                out.append("XOp (OSend %s (UAdd %s %s %s))" % (pb(op[1]), cZ(op[2]), cZ(op[3]), cZ(op[4])))
        elif k in ("settle", "fail", "malformed"):
            if res == "ok":
                out.append("XOp (OSend %s (%s %s))" % (pb(op[1]), "USettle" if k == "settle" else "UFail",
                                                        cnat(op[2])))
        elif k == "fee":
            if res == "ok":
                out.append("XOp (OSend %s (UFee %s))" % (pb(op[1]), cZ(op[2])))
        elif k == "sign":
            if res == "ok":
                out.append("XOp (OSign %s)" % pb(op[1]))
            elif res != "no_window":
                reason = "sign %s" % res
                break
        elif k == "revoke":
            if res == "ok":
                out.append("XOp (ORevoke %s)" % pb(op[1]))
            elif res != "no_pending":
                reason = "revoke %s" % res
                break
        elif k == "deliver":
            if res == "ok":
                out.append("XOp (ODeliver %s)" % pb(op[1]))
            elif res != "no_pending":
                reason = "deliver %s" % res
                break
        elif k == "crash":
            pass
        elif k == "cut":
            ex = st.get("extra", {})
            if ex.get("err_a") or ex.get("err_b") or res != "ok" or \
                    any(d[2] != "ok" for d in ex.get("delivered", [])):
                reason = "cut %s" % res
                break
            ka = sum(1 for d in ex.get("delivered", []) if d[0] == "a")
            kb = sum(1 for d in ex.get("delivered", []) if d[0] == "b")
            out.append("XCut %s %s" % (cnat(ka), cnat(kb)))
        else:
            reason = "unknown op %s" % k
            break
    return out, reason


def item(k, a, b=0):
    return "(%s, %s, %s)" % (cN(k), cZ(a), cZ(b))


def case04_term(case):
    ops, reason = xops(case)
    revs = []
    meta = []
    for e in case.get("revoked", []):
        if not e.get("acked"):
            continue
        cheater = e["cheater"]
        victim = other(cheater)
        obs = None
        if e["h"] > 0:
            for v in e.get("variants", []):
                if v.get("err") is None and v.get("inputs") is not None:
                    obs = [item(KIND04[i["kind"]], i["amt"]) for i in v["inputs"]]
                    break
        revs.append("(%s, %s, %s, %s)" % (cm.pb(victim), cnat(e["h"]),
                                          cm.commit_term(e["commit"], cheater, cheater),
                                          copt(obs, clist)))
        meta.append((cheater, e["h"]))
    t = "(%s, %s, %s, %s)" % (cm.cfg_term(case), clist(ops), cbool(reason is None), clist(revs))
    return t, meta, reason


def case05_term(case):
    ents, meta = [], []
    for kind, p, rep, commit, tag in c05_reports(case):
        if kind == "error" or rep.get("err") or commit is None or rep["h"] == 0:
            continue
        items, total, good = [], 0, True
        if kind == "local":
            owner = p
            t = rep.get("to_local")
            if t is not None:
                items.append(item(1, t.get("amt", -1), t.get("amt", -1)))
                total += t.get("amt", 0)
            for x in rep.get("htlcs", []):
                if "amt" not in x or "second_amt" not in x:
                    good = False
                    continue
                items.append(item(3 if x["inc"] else 2, x["amt"], x["second_amt"]))
                total += x["amt"]
        else:
            owner = other(p)
            t = rep.get("to_remote")
            if t is not None:
                items.append(item(1, t.get("amt", -1), t.get("amt", -1)))
                total += t.get("amt", 0)
            for x in rep.get("htlcs", []):
                if "amt" not in x:
                    good = False
                    continue
                items.append(item(3 if x["inc"] else 2, x["amt"], x["amt"]))
                total += x["amt"]
        if not good:
            continue          # an engine / outpoint failure: reported by the predicate
        ents.append("(%s, %s, %s, %s)" % (cm.commit_term(commit, owner, p), cm.pb(p), clist(items), cZ(total)))
        meta.append(tag)
    return "(%s, %s)" % (cm.cfg_term(case), clist(ents)), meta


def script_of(row, upto=None):
    steps = row["steps"] if upto is None else row["steps"][:upto]
    return {"chan_type": row.get("chan_type"), "ops": [s["op"] for s in steps],
            "no_amt_data": row["cfg"].get("no_amt_data")}


def histograms(rows):
    h = {"chan_type": {}, "ops": {}, "revoked_heights": 0, "acked": 0, "justice_inputs": {},
         "second_level_inputs": 0, "variants": {}, "samples": {}, "reports": {}, "htlc_resolutions": 0,
         "no_amt_cases": 0, "aborted": {}, "gaps": 0, "max_height": 0}
    for r in rows:
        h["chan_type"][r["chan_type"]] = h["chan_type"].get(r["chan_type"], 0) + 1
        if r["cfg"].get("no_amt_data"):
            h["no_amt_cases"] += 1
        if r.get("aborted"):
            h["aborted"][r["aborted"]] = h["aborted"].get(r["aborted"], 0) + 1
        h["gaps"] += len(r.get("gaps") or [])
        for s in r["steps"]:
            k = s["op"][0]
            h["ops"][k] = h["ops"].get(k, 0) + 1
        for e in r.get("revoked", []):
            h["revoked_heights"] += 1
            h["max_height"] = max(h["max_height"], e["h"])
            if e.get("acked"):
                h["acked"] += 1
            for v in e.get("variants", []):
                key = "%s:%s" % (v["v"], v.get("err") or "ok")
                h["variants"][key] = h["variants"].get(key, 0) + 1
                for i in v.get("inputs") or []:
                    h["justice_inputs"][i["wt"]] = h["justice_inputs"].get(i["wt"], 0) + 1
                h["second_level_inputs"] += len(v.get("second_level") or [])
        for s in r.get("samples", []):
            k = "%s%s" % (s.get("why"), "/reload" if s.get("reload") else "")
            h["samples"][k] = h["samples"].get(k, 0) + 1
        for kind, p, rep, commit, tag in c05_reports(r):
            h["reports"][kind] = h["reports"].get(kind, 0) + 1
            h["htlc_resolutions"] += len(rep.get("htlcs") or [])
    return h
