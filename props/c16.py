"""C16 — an outgoing payment is never paid twice nor beyond its amount; status truthful;
KV and SQL payment stores answer alike."""
from lib.verif import *

THEOREMS = [
    "C16_never_overpay", "C16_register_gate", "C16_init_gate", "C16_status_truth",
    "C16_terminal_stable", "C16_inflight_query_agrees", "C16_refinement_partial",
    "C16_backends_differ_refuted", "C16_overpay_beyond_uint64_refuted",
]
MODULE = "LV.Payments.Props"
TARGETS = ["theories/Payments/Props.vo", "theories/Payments/Exec.vo",
           "theories/Payments/Examples.vo"]
HARNESS = ["payments/verif_store_test.go"]
WARM = [{"pkg": "payments/db", "files": HARNESS, "tags": "verif test_db_sqlite"}]
IMPORTS = ("From Coq Require Import List NArith Bool.\nImport ListNotations.\n"
           "From LV Require Import Payments.Model Payments.Exec.\n")

ERR = ["EOk", "EOther", "EAlreadyPaid", "EPaymentInFlight", "EPaymentExists", "ENotInitiated",
       "EAlreadySucceeded", "EAlreadyFailed", "EAttSettled", "EAttFailed", "EValueMismatch",
       "EValueExceeds", "ENonMPP", "EMPP", "EMPPInBlinded", "EBlindedTotalMismatch",
       "EMixedBlinded", "EBlindedMissingTotal", "EMPPAddrMismatch", "EMPPTotalMismatch",
       "EPendingSettled", "EPendingFailed", "ESentExceedsTotal"]
STATUS = {1: "StInitiated", 2: "StInFlight", 3: "StSucceeded", 4: "StFailed"}
OUT = ["Inflight", "Settled", "Failed"]
TWO63 = 2 ** 63

# ---------------------------------------------------------------- Coq terms


def op_term(o):
    k = o[0]
    if k == "init":
        return "OInit %s %s" % (cN(o[1]), cN(o[2]))
    if k == "reg":
        mpp = "(Some (%s, %s))" % (cN(o[5]), cN(o[6])) if o[4] else "None"
        return "ORegister %s (mkAtt %s %s %s %s %s Inflight)" % (
            cN(o[1]), cN(o[2]), cN(o[3]), mpp, cbool(o[7]), cN(o[8]))
    if k == "settle":
        return "OSettle %s %s" % (cN(o[1]), cN(o[2]))
    if k == "failatt":
        return "OFailAttempt %s %s" % (cN(o[1]), cN(o[2]))
    if k == "fail":
        return "OFail %s %s" % (cN(o[1]), cN(o[2]))
    if k == "delfailed":
        return "ODeleteFailedAttempts %s" % cN(o[1])
    if k == "delpay":
        return "ODeletePayment %s %s" % (cN(o[1]), cbool(o[2]))
    if k == "fetch":
        return "OFetch %s" % cN(o[1])
    if k == "inflight":
        return "OFetchInFlight"
    raise ValueError(k)


def proj_term(p):
    if p["st"] not in STATUS:
        # not a status of the model: make the comparison fail visibly
        return "(mkProj StInitiated 0%N 0%N 99999%N false false None [])"
    return "(mkProj %s %s %s %s %s %s %s %s)" % (
        STATUS[p["st"]], cN(p["val"]), cN(p["rem"]), cN(p["nif"]), cbool(p["hs"]),
        cbool(p["pf"]), copt(p["fr"], cN),
        clist(["(%s, %s, %s)" % (cN(a[0]), cN(a[1]), OUT[a[2]]) for a in p["at"]]))


def resp_term(r):
    return "(mkResp %s %s %s)" % (
        ERR[r["e"]], copt(r["p"], proj_term),
        clist(["(%s, %s)" % (cN(x[0]), proj_term(x[1])) for x in r["l"]]))


def case_term(c):
    return clist(["(%s, %s, %s)" % (op_term(s["op"]), resp_term(s["kv"]), resp_term(s["sql"]))
                  for s in c["steps"]])


# ------------------------------------------- predicate on the implementation


def table_status(inflight, settled, hfailed, pfailed):
    """The truth table documented above decidePaymentStatus."""
    if inflight:
        return 2
    if settled:
        return 3
    if pfailed:
        return 4
    if hfailed:
        return 2
    return 1


def proj_fails(p, in_domain):
    """Checks on ONE reported MPPayment (status truthful, never overpaid)."""
    f = []
    outs = [a[2] for a in p["at"]]
    inflight, settled, hfailed = 0 in outs, 1 in outs, 2 in outs
    exp = table_status(inflight, settled, hfailed, p["fr"] is not None)
    if p["st"] != exp:
        f.append("status_truth: reported status %d, documented table gives %d" % (p["st"], exp))
    if settled and p["st"] == 4:
        f.append("status_truth: payment with a settled attempt reported Failed")
    if p["hs"] != settled or p["pf"] != ((not settled) and p["fr"] is not None) \
            or p["nif"] != outs.count(0):
        f.append("status_truth: state flags disagree with the attempts")
    if len({a[0] for a in p["at"]}) != len(p["at"]):
        f.append("status_truth: duplicate attempt id in one payment")
    if in_domain:
        s = sum(a[1] for a in p["at"] if a[2] != 2)
        if s > p["val"]:
            f.append("never_overpay: settled+in-flight %d exceeds payment amount %d"
                     % (s, p["val"]))
        elif p["rem"] != p["val"] - s:
            f.append("never_overpay: remaining %d != %d - %d" % (p["rem"], p["val"], s))
    return f


def case_in_domain(c):
    for s in c["steps"]:
        o = s["op"]
        if o[0] == "init" and o[2] >= TWO63:
            return False
        if o[0] == "reg" and o[3] >= TWO63:
            return False
    return True


def predicate(c, be):
    """Property predicate on one backend's answers of one history.
    Returns [(theorem, message, step index)]."""
    fails = []
    dom = case_in_domain(c)
    term = {}     # h -> 3/4 once reported terminal
    for i, s in enumerate(c["steps"]):
        o, r = s["op"], s[be]
        k = o[0]
        h = o[1] if k != "inflight" else None
        ok = r["e"] == 0
        projs = ([(h, r["p"])] if r["p"] is not None else []) + [(x[0], x[1]) for x in r["l"]]
        for hh, p in projs:
            for m in proj_fails(p, dom):
                fails.append((m.split(":")[0], m, i))
            if hh in term and p["st"] != term[hh]:
                fails.append(("terminal_stable", "payment %d was %s, now reported status %d"
                              % (hh, STATUS[term[hh]], p["st"]), i))
            if p["st"] in (3, 4):
                term[hh] = p["st"]
            elif hh in term:
                del term[hh]
        if k == "inflight" and ok:
            for hh, p in projs:
                if p["st"] not in (1, 2):
                    fails.append(("status_truth", "FetchInFlightPayments returned a terminated "
                                  "payment", i))
        if k == "init":
            pre = s.get("pre", {}).get(be)
            if ok and pre in (1, 2, 3):
                fails.append(("init_gate", "InitPayment succeeded on a payment with status %d"
                              % pre, i))
            if ok:
                term.pop(h, None)
        if k == "reg" and ok:
            p = r["p"]
            if p is None:
                fails.append(("register_gate", "RegisterAttempt ok without payment", i))
            else:
                if any(a[2] == 1 for a in p["at"]):
                    fails.append(("register_gate", "attempt admitted although one is settled", i))
                if p["fr"] is not None:
                    fails.append(("register_gate", "attempt admitted although payment failed", i))
                if p["st"] != 2:
                    fails.append(("register_gate", "status %d after registration" % p["st"], i))
        if k == "delpay" and ok and not o[2]:
            term.pop(h, None)
        if k in ("settle", "failatt", "reg") and ok and h in term and term[h] in (3, 4) \
                and r["p"] is not None and r["p"]["st"] != term[h]:
            fails.append(("terminal_stable", "terminal payment updated", i))
    return fails


# (op, KV error, SQL error) triples that the model proves are the ONLY differences
# on disciplined histories (C16_refinement_partial / err_class_pair): same
# accept/reject decision and same stored state, different sentinel.
ERRCLASS = {("reg", 5, 1), ("delpay", 1, 5), ("delfailed", 1, 5),
            ("settle", 9, 1), ("settle", 8, 1), ("failatt", 9, 1), ("failatt", 8, 1)}


def kvsql_compare(c):
    """Direct KV vs SQL comparison of one history on the implementation's answers.
    Returns (first state/answer divergence or None, set of error-class pairs seen).
    A divergence is (kind, step index, description); kind is one of the two
    specific, independently re-checked classes or 'other'.  The re-check uses a view
    (hash -> {attempt id: outcome}) rebuilt from the answers themselves (identical for
    both backends up to the first divergence)."""
    errclass = set()
    view = {}
    for i, s in enumerate(c["steps"]):
        a, b = s["kv"], s["sql"]
        o = s["op"]
        k = o[0]
        same_payload = a["p"] == b["p"] and a["l"] == b["l"]
        agree = same_payload and a["e"] == b["e"]
        if not agree and same_payload and a["p"] is None and (k, a["e"], b["e"]) in ERRCLASS:
            errclass.add("%s:%s/%s" % (k, ERR[a["e"]], ERR[b["e"]]))
            agree = True
        if agree:
            if a["p"] is not None:
                view[o[1]] = {x[0]: x[2] for x in a["p"]["at"]}
            for hh, pp in a["l"]:
                view[hh] = {x[0]: x[2] for x in pp["at"]}
            if a["e"] == 0:
                if k == "init" or (k == "delpay" and not o[2]):
                    view[o[1]] = {}
                elif k == "delfailed" or (k == "delpay" and o[2]):
                    view[o[1]] = {x: y for x, y in view.get(o[1], {}).items() if y != 2}
            continue
        if k == "reg" and a["e"] == 0 and b["e"] == 1 and b["p"] is None \
                and "payment_htlc_attempts.attempt_index" in b.get("m", "") \
                and any(o[2] in ids for ids in view.values()):
            return ("dup-attempt-id", i, "RegisterAttempt with an attempt id that is already "
                    "in use: KVStore accepts (overwrites / shares it), SQLStore rejects"), errclass
        if k in ("settle", "failatt") and a["e"] == 1 and a["p"] is None and b["e"] == 0 \
                and o[2] not in view.get(o[1], {}) \
                and any(ids.get(o[2]) == 0 for hh, ids in view.items() if hh != o[1]):
            return ("cross-payment-resolve", i, "Settle/FailAttempt through another payment's "
                    "hash: KVStore rejects, SQLStore resolves the other payment's attempt"), \
                errclass
        return ("other", i, "%s: KV %s %s vs SQL %s %s" % (
            k, ERR[a["e"]], a["p"], ERR[b["e"]], b["p"])), errclass
    return None, errclass


def run(ctx):
    pr = ctx.proof_stage(MODULE, THEOREMS, TARGETS, extra_trusted=[
        "one model step = one DB transaction (kvdb.Batch/Update, sqldb ExecTx): bbolt/sqlite "
        "atomicity and rollback-on-error are assumed, exercised by the harness",
        "domain guard of C16_never_overpay: payment values and attempt amounts < 2^63 msat "
        "(uint64 sums cannot wrap); outside it C16_overpay_beyond_uint64_refuted holds",
        "C16_refinement_partial hypothesis: attempt ids globally fresh at registration and "
        "settle/fail addressed through the owning payment hash (what the router does)"])
    env = {}
    if ctx.thorough:
        env["VERIF_CHUNK"] = "40"
    rc, trace, out = run_harness(ctx.uid(), "payments/db", HARNESS, "^TestVerifPayments$",
                                 env=env, tags="verif test_db_sqlite", timeout=2400,
                                 race=False)
    rows = read_jsonl(trace)
    if rc != 0 or not rows:
        ctx.violation("harness_failed", "TestVerifPayments", {"log": out[-4000:]},
                      signature="harness", failing_input=False)
        return

    # ---- property predicate on the implementation's own answers
    nviol = 0
    pred_evals = 0
    for c in rows:
        for be in ("kv", "sql"):
            pred_evals += 1
            fl = predicate(c, be)
            if fl and nviol < 4:
                nviol += 1
                th, msg, i = fl[0]
                ctx.violation("impl_violates_predicate", "C16_" + th,
                              {"backend": be, "case": c["case"], "mode": c["mode"],
                               "first_failure": msg, "at_step": i, "all": fl[:6],
                               "history": [s["op"] for s in c["steps"][:i + 1]],
                               "answers": [s[be] for s in c["steps"][:i + 1]]},
                              signature="C16 %s %s: %s" % (be, th, msg))

    # ---- KV vs SQL, directly on the implementation
    div = {}
    errclasses = set()
    for c in rows:
        d, ec = kvsql_compare(c)
        if c["mode"] != "wrap":
            errclasses |= ec
        if d is None:
            continue
        kind, i, desc = d
        if c["mode"] == "wrap" and kind == "other":
            continue        # outside the amount domain the stores may answer differently
        detail = {"case": c["case"], "mode": c["mode"], "at_step": i, "what": desc,
                  "minimal_history": [s["op"] for s in c["steps"][:i + 1]],
                  "kv_answers": [s["kv"] for s in c["steps"][:i + 1]][-3:],
                  "sql_answers": [s["sql"] for s in c["steps"][:i + 1]][-3:]}
        if kind in ("dup-attempt-id", "cross-payment-resolve") \
                and c["mode"] in ("wild", "witness"):
            # the two genuine differences witnessed by C16_backends_differ_refuted; the
            # directed witness cases come first, so the recorded history is minimal
            if kind not in div:
                div[kind] = detail
            continue
        # anything else — or any divergence on a disciplined history — is new
        if nviol < 6:
            nviol += 1
            ctx.violation("impl_violates_predicate", "C16_refinement_partial", detail,
                          signature="C16 kvsql-unexpected:%s %s" % (kind, desc))
    for kind, detail in sorted(div.items()):
        ctx.violation("impl_violates_predicate", "C16_backends_differ_refuted", detail,
                      signature="C16 kvsql:%s" % kind)
    if errclasses:
        ctx.violation("impl_violates_predicate", "C16_backends_differ_refuted",
                      {"what": "same decision and state, different error sentinel",
                       "pairs(op:KV/SQL)": sorted(errclasses),
                       "minimal_history": [["reg", 0, 1, 5, True, 1, 1000, False, 0],
                                           ["delpay", 0, False]]},
                      signature="C16 kvsql:errclass")

    # ---- correspondence: model (KV step, SQL step) vs both implementations
    terms = [case_term(c) for c in rows]
    ok, bad, logs = coq_mismatches(ctx.uid(), IMPORTS, terms,
                                   shard=max(4, len(terms) // (2 * NCPU) + 1))
    if not ok:
        ctx.violation("correspondence_mismatch", "Payments.Exec (model evaluation failed)",
                      {"logs": logs}, signature="model-eval", failing_input=False)
    for ci, idx in bad[:3]:
        c = rows[ci]
        first = idx[0]
        si, be = first // 2, ("kv" if first % 2 == 0 else "sql")
        ctx.violation("correspondence_mismatch", "Payments.Exec.check_case",
                      {"case": c["case"], "mode": c["mode"], "backend": be, "at_step": si,
                       "history": [s["op"] for s in c["steps"][:si + 1]],
                       "implementation_answer": c["steps"][si][be],
                       "mismatch_indices(2*step+backend)": idx[:10]},
                      signature="C16 model mismatch %s %s" % (be, c["steps"][si]["op"][0]),
                      failing_input=bool(predicate(c, be)))
    if not pr["ok"] and not ctx.violations:
        ctx.violation("proof_broken", ", ".join(pr["broken"]) or "Payments build",
                      {"log": pr["log"][-4000:]}, signature="proof", failing_input=False)

    # ---- coverage
    modes, opk, errk, stat = {}, {}, {"kv": {}, "sql": {}}, {}
    nsteps = 0
    for c in rows:
        modes[c["mode"]] = modes.get(c["mode"], 0) + 1
        nsteps += len(c["steps"])
        for s in c["steps"]:
            k = s["op"][0]
            key = k + (":ok" if s["kv"]["e"] == 0 else ":err")
            opk[key] = opk.get(key, 0) + 1
            for be in ("kv", "sql"):
                e = ERR[s[be]["e"]]
                errk[be][e] = errk[be].get(e, 0) + 1
            if s["kv"]["p"]:
                st = STATUS.get(s["kv"]["p"]["st"], "?")
                stat[st] = stat.get(st, 0) + 1
    ctx.cov.update({
        "evaluations": len(rows),
        "distinct_nontrivial": distinct_count(
            [c for c in rows if sum(1 for s in c["steps"] if s["op"][0] == "reg"
                                    and s["kv"]["e"] == 0) >= 1],
            lambda c: [s["op"] for s in c["steps"]]),
        "rule": "seeded histories over 2-3 payment hashes; modes: disc (fresh attempt ids, "
                "router-like targets), wild (ids from a pool of 5, arbitrary targets), wrap "
                "(amounts near 2^63/2^64), witness (the Coq witnesses); non-trivial = at least "
                "one accepted registration; distinct by full op list",
        "traces_validated_against_impl": 2 * len(rows),
        "predicate_evaluations": pred_evals,
        "steps_total": nsteps, "case_modes": modes, "op_kinds": opk,
        "error_kinds": errk, "status_seen": stat,
        "kvsql_divergence_kinds": sorted(div.keys()), "kvsql_errclass_pairs": sorted(errclasses),
        "samples": [[s["op"] for s in rows[min(8, len(rows) - 1)]["steps"][:8]]],
        "correspondence_mismatches": len(bad),
    })
    ctx.assumptions += [
        "bbolt / sqlite transactions are atomic (one model step per API call)",
        "amounts < 2^63 msat for the never-overpay theorem",
        "concurrent callers are linearised by the database transaction (RegisterAttempt's "
        "documented per-hash serialisation requirement is assumed, not checked)"]
    if ctx.thorough:
        ctx.coqchk(["LV.Payments.Props"])
