"""C16 — an outgoing payment is never paid twice nor beyond its amount; status truthful;
KV and SQL payment stores answer alike."""
from lib.verif import *
import hashlib
import json
import shutil

THEOREMS = [
    "C16_never_overpay", "C16_register_gate", "C16_init_gate", "C16_status_truth",
    "C16_terminal_stable", "C16_inflight_query_agrees", "C16_refinement_partial",
    "C16_backends_differ_refuted", "C16_overpay_beyond_uint64_refuted",
    "C16_lin_checker_sound", "C16_linearised_never_overpay", "C16_shard_admission",
]
MODULE = "LV.Payments.Props"
TARGETS = ["theories/Payments/Props.vo", "theories/Payments/Exec.vo",
           "theories/Payments/Examples.vo", "theories/Payments/Lin.vo",
           "theories/Payments/LinProofs.vo"]
HARNESS = ["payments/verif_store_test.go", "payments/verif_concurrent_test.go"]
WARM = [{"pkg": "payments/db", "files": HARNESS, "tags": "verif test_db_sqlite"}]
IMPORTS = ("From Coq Require Import List NArith Bool.\nImport ListNotations.\n"
           "From LV Require Import Payments.Model Payments.Exec.\n")
IMPORTS_LIN = IMPORTS + "From LV Require Import Payments.Lin.\n"

ERR = ["EOk", "EOther", "EAlreadyPaid", "EPaymentInFlight", "EPaymentExists", "ENotInitiated",
       "EAlreadySucceeded", "EAlreadyFailed", "EAttSettled", "EAttFailed", "EValueMismatch",
       "EValueExceeds", "ENonMPP", "EMPP", "EMPPInBlinded", "EBlindedTotalMismatch",
       "EMixedBlinded", "EBlindedMissingTotal", "EMPPAddrMismatch", "EMPPTotalMismatch",
       "EPendingSettled", "EPendingFailed", "ESentExceedsTotal"]
STATUS = {1: "StInitiated", 2: "StInFlight", 3: "StSucceeded", 4: "StFailed"}
OUT = ["Inflight", "Settled", "Failed"]
TWO63 = 2 ** 63

# ---------------------------------------------------------------- Coq terms


def op_term(o):
    k = o[0]
    if k == "init":
        return "OInit %s %s" % (cN(o[1]), cN(o[2]))
    if k == "reg":
        mpp = "(Some (%s, %s))" % (cN(o[5]), cN(o[6])) if o[4] else "None"
        return "ORegister %s (mkAtt %s %s %s %s %s Inflight)" % (
            cN(o[1]), cN(o[2]), cN(o[3]), mpp, cbool(o[7]), cN(o[8]))
    if k == "settle":
        return "OSettle %s %s" % (cN(o[1]), cN(o[2]))
    if k == "failatt":
        return "OFailAttempt %s %s" % (cN(o[1]), cN(o[2]))
    if k == "fail":
        return "OFail %s %s" % (cN(o[1]), cN(o[2]))
    if k == "delfailed":
        return "ODeleteFailedAttempts %s" % cN(o[1])
    if k == "delpay":
        return "ODeletePayment %s %s" % (cN(o[1]), cbool(o[2]))
    if k == "fetch":
        return "OFetch %s" % cN(o[1])
    if k == "inflight":
        return "OFetchInFlight"
    raise ValueError(k)


def proj_term(p):
    if p["st"] not in STATUS:
        # not a status of the model: make the comparison fail visibly
        return "(mkProj StInitiated 0%N 0%N 99999%N false false None [])"
    return "(mkProj %s %s %s %s %s %s %s %s)" % (
        STATUS[p["st"]], cN(p["val"]), cN(p["rem"]), cN(p["nif"]), cbool(p["hs"]),
        cbool(p["pf"]), copt(p["fr"], cN),
        clist(["(%s, %s, %s)" % (cN(a[0]), cN(a[1]), OUT[a[2]]) for a in p["at"]]))


def resp_term(r):
    return "(mkResp %s %s %s)" % (
        ERR[r["e"]], copt(r["p"], proj_term),
        clist(["(%s, %s)" % (cN(x[0]), proj_term(x[1])) for x in r["l"]]))


def case_term(c):
    return clist(["(%s, %s, %s)" % (op_term(s["op"]), resp_term(s["kv"]), resp_term(s["sql"]))
                  for s in c["steps"]])


# ------------------------------------------- predicate on the implementation


def table_status(inflight, settled, hfailed, pfailed):
    """The truth table documented above decidePaymentStatus."""
    if inflight:
        return 2
    if settled:
        return 3
    if pfailed:
        return 4
    if hfailed:
        return 2
    return 1


def proj_fails(p, in_domain):
    """Checks on ONE reported MPPayment (status truthful, never overpaid)."""
    f = []
    outs = [a[2] for a in p["at"]]
    inflight, settled, hfailed = 0 in outs, 1 in outs, 2 in outs
    exp = table_status(inflight, settled, hfailed, p["fr"] is not None)
    if p["st"] != exp:
        f.append("status_truth: reported status %d, documented table gives %d" % (p["st"], exp))
    if settled and p["st"] == 4:
        f.append("status_truth: payment with a settled attempt reported Failed")
    if p["hs"] != settled or p["pf"] != ((not settled) and p["fr"] is not None) \
            or p["nif"] != outs.count(0):
        f.append("status_truth: state flags disagree with the attempts")
    if len({a[0] for a in p["at"]}) != len(p["at"]):
        f.append("status_truth: duplicate attempt id in one payment")
    if in_domain:
        s = sum(a[1] for a in p["at"] if a[2] != 2)
        if s > p["val"]:
            f.append("never_overpay: settled+in-flight %d exceeds payment amount %d"
                     % (s, p["val"]))
        elif p["rem"] != p["val"] - s:
            f.append("never_overpay: remaining %d != %d - %d" % (p["rem"], p["val"], s))
    return f


def case_in_domain(c):
    for s in c["steps"]:
        o = s["op"]
        if o[0] == "init" and o[2] >= TWO63:
            return False
        if o[0] == "reg" and o[3] >= TWO63:
            return False
    return True


def predicate(c, be):
    """Property predicate on one backend's answers of one history.
    Returns [(theorem, message, step index)]."""
    fails = []
    dom = case_in_domain(c)
    term = {}     # h -> 3/4 once reported terminal
    for i, s in enumerate(c["steps"]):
        o, r = s["op"], s[be]
        k = o[0]
        h = o[1] if k != "inflight" else None
        ok = r["e"] == 0
        projs = ([(h, r["p"])] if r["p"] is not None else []) + [(x[0], x[1]) for x in r["l"]]
        for hh, p in projs:
            for m in proj_fails(p, dom):
                fails.append((m.split(":")[0], m, i))
            if hh in term and p["st"] != term[hh]:
                fails.append(("terminal_stable", "payment %d was %s, now reported status %d"
                              % (hh, STATUS[term[hh]], p["st"]), i))
            if p["st"] in (3, 4):
                term[hh] = p["st"]
            elif hh in term:
                del term[hh]
        if k == "inflight" and ok:
            for hh, p in projs:
                if p["st"] not in (1, 2):
                    fails.append(("status_truth", "FetchInFlightPayments returned a terminated "
                                  "payment", i))
        if k == "init":
            pre = s.get("pre", {}).get(be)
            if ok and pre in (1, 2, 3):
                fails.append(("init_gate", "InitPayment succeeded on a payment with status %d"
                              % pre, i))
            if ok:
                term.pop(h, None)
        if k == "reg" and ok:
            p = r["p"]
            if p is None:
                fails.append(("register_gate", "RegisterAttempt ok without payment", i))
            else:
                if any(a[2] == 1 for a in p["at"]):
                    fails.append(("register_gate", "attempt admitted although one is settled", i))
                if p["fr"] is not None:
                    fails.append(("register_gate", "attempt admitted although payment failed", i))
                if p["st"] != 2:
                    fails.append(("register_gate", "status %d after registration" % p["st"], i))
        if k == "delpay" and ok and not o[2]:
            term.pop(h, None)
        if k in ("settle", "failatt", "reg") and ok and h in term and term[h] in (3, 4) \
                and r["p"] is not None and r["p"]["st"] != term[h]:
            fails.append(("terminal_stable", "terminal payment updated", i))
    return fails


# ------------------------------------------------ stored attempts (route content)
# The harness registers attempts whose routes carry every field the stores persist
# (verif_store_test.go vShape) and projects every attempt a store hands back
# (`rt`: attempt id -> route / session key / hash projection).  The admission decision
# (verifyAttempt, SentAmt) is a function of the STORED in-flight attempts, so "admits a
# new attempt only while ... stay within the payment amount" and "both backends answer
# alike" are about what was registered only if the stores hand back what they were given.

MUTATING = ("init", "reg", "settle", "failatt", "fail", "delfailed", "delpay")


def nosk(p):
    """Projection without the session keys (drawn fresh per backend)."""
    if not p or "rt" not in p:
        return p
    q = dict(p)
    q["rt"] = {k: {kk: vv for kk, vv in v.items() if kk != "sk"} for k, v in p["rt"].items()}
    return q


def nosk_l(l):
    return [[x[0], nosk(x[1])] for x in l]


def route_diff(exp, got):
    """First differing field of two attempt projections: (path, expected, got)."""
    for k in sorted(set(exp) | set(got)):
        if k == "hops":
            continue
        if exp.get(k) != got.get(k):
            return k, exp.get(k), got.get(k)
    he, hg = exp.get("hops", []), got.get("hops", [])
    if len(he) != len(hg):
        return "hops(len)", len(he), len(hg)
    for i, (a, b) in enumerate(zip(he, hg)):
        for k in sorted(set(a) | set(b)):
            if a.get(k) != b.get(k):
                role = "final" if i == len(he) - 1 else "hop"
                return "%s.%s" % (role, k), a.get(k), b.get(k)
    return None


FIELD_NAMES = {"tot": "blinded total_amt_msat", "bp": "blinding point", "ed": "encrypted data",
               "mpp": "MPP record", "amp": "AMP record", "md": "metadata", "cr": "custom records",
               "amt": "amt_to_forward", "tl": "outgoing time lock", "ch": "channel id",
               "pk": "hop pubkey", "lg": "legacy-payload flag", "fha": "first-hop amount",
               "fhcr": "first-hop wire custom records", "src": "source key",
               "ttl": "total time lock", "tamt": "total amount", "sk": "session key",
               "hash": "attempt hash", "hops(len)": "number of hops"}


def field_name(path):
    role, _, k = path.rpartition(".")
    return ((role + " ") if role else "") + FIELD_NAMES.get(k, k)


def readback_fails(c, be):
    """Lossless persistence on ONE backend: every attempt a store hands back (in any
    MPPayment any operation returns, FetchInFlightPayments and QueryPayments included)
    equals the attempt that was registered under that (hash, id) on that backend.
    Returns ([(message, step index, field path)], #attempt comparisons)."""
    reg = {}
    fails, n = [], 0

    def look(hh, p, i, where):
        nonlocal n
        for aid, got in (p.get("rt") or {}).items():
            exp = reg.get((hh, int(aid)))
            if exp is None:
                continue
            n += 1
            d = route_diff(exp, got)
            if d:
                fails.append(("attempt %s of payment %d handed back by %s: %s registered %s, "
                              "stored %s" % (aid, hh, where, field_name(d[0]),
                                             "absent/0" if d[1] is None else repr(d[1]),
                                             "absent/0" if d[2] is None else repr(d[2])),
                              i, d[0]))
    for i, s in enumerate(c["steps"]):
        o, r = s["op"], s[be]
        if o[0] == "reg" and r["e"] == 0 and r.get("reg"):
            reg[(o[1], o[2])] = r["reg"]
        if r["p"] is not None:
            look(o[1], r["p"], i, o[0])
        for hh, p in r["l"]:
            look(hh, p, i, o[0])
    q = (c.get("query") or {}).get(be)
    if q:
        for hh, p in q["l"]:
            look(hh, p, len(c["steps"]), "QueryPayments")
    return fails, n


def closing_fetches(c, be):
    """h -> projection of the trailing `fetch h` answers (no mutating op after them)."""
    fin = {}
    for s in reversed(c["steps"]):
        o = s["op"]
        if o[0] in MUTATING:
            break
        if o[0] == "fetch" and o[1] not in fin:
            fin[o[1]] = s[be]
    return fin


def query_fails(c, cross=True):
    """QueryPayments (closing observation): per backend it lists exactly the payments
    FetchPayment finds, with the same content; KV and SQL list the same (cross: only
    asked of histories on which the backends agreed step by step)."""
    q = c.get("query")
    if not q:
        return []
    fails = []
    for be in ("kv", "sql"):
        if q[be]["e"] != 0:
            fails.append("%s QueryPayments failed: %s" % (be, q[be].get("m")))
            continue
        got = {x[0]: x[1] for x in q[be]["l"]}
        for h, r in closing_fetches(c, be).items():
            if r["e"] == 0 and got.get(h) != r["p"]:
                fails.append("%s QueryPayments reports payment %d as %r, FetchPayment as %r"
                             % (be, h, got.get(h), r["p"]))
            if r["e"] == 5 and h in got:
                fails.append("%s QueryPayments lists payment %d, FetchPayment does not know it"
                             % (be, h))
    if cross and not fails and nosk_l(q["kv"]["l"]) != nosk_l(q["sql"]["l"]):
        fails.append("QueryPayments: KV %r vs SQL %r" % (q["kv"]["l"], q["sql"]["l"]))
    return fails


def shape_key(o):
    """Histogram key of a register op's route content."""
    sh = o[9] if len(o) > 9 else None
    if not sh:
        return "plain-1hop" + ("-blinded-nobp" if o[7] else "")
    k = "%dhop" % sh["n"]
    if o[7]:
        k += "-blinded%d" % sh.get("bl", 0)
        if sh.get("bl", 0) == 1 and not sh.get("nobp"):
            k += "(final=intro)"
        if sh.get("nobp"):
            k += "-nobp"
    return k


# (op, KV error, SQL error) triples that the model proves are the ONLY differences
# on disciplined histories (C16_refinement_partial / err_class_pair): same
# accept/reject decision and same stored state, different sentinel.
ERRCLASS = {("reg", 5, 1), ("delpay", 1, 5), ("delfailed", 1, 5),
            ("settle", 9, 1), ("settle", 8, 1), ("failatt", 9, 1), ("failatt", 8, 1)}


def kvsql_compare(c):
    """Direct KV vs SQL comparison of one history on the implementation's answers.
    Returns (first state/answer divergence or None, set of error-class pairs seen).
    A divergence is (kind, step index, description); kind is one of the two
    specific, independently re-checked classes or 'other'.  The re-check uses a view
    (hash -> {attempt id: outcome}) rebuilt from the answers themselves (identical for
    both backends up to the first divergence)."""
    errclass = set()
    view = {}
    for i, s in enumerate(c["steps"]):
        a, b = s["kv"], s["sql"]
        o = s["op"]
        k = o[0]
        same_payload = nosk(a["p"]) == nosk(b["p"]) and nosk_l(a["l"]) == nosk_l(b["l"])
        agree = same_payload and a["e"] == b["e"]
        if not agree and same_payload and a["p"] is None and (k, a["e"], b["e"]) in ERRCLASS:
            errclass.add("%s:%s/%s" % (k, ERR[a["e"]], ERR[b["e"]]))
            agree = True
        if agree:
            if a["p"] is not None:
                view[o[1]] = {x[0]: x[2] for x in a["p"]["at"]}
            for hh, pp in a["l"]:
                view[hh] = {x[0]: x[2] for x in pp["at"]}
            if a["e"] == 0:
                if k == "init" or (k == "delpay" and not o[2]):
                    view[o[1]] = {}
                elif k == "delfailed" or (k == "delpay" and o[2]):
                    view[o[1]] = {x: y for x, y in view.get(o[1], {}).items() if y != 2}
            continue
        if k == "reg" and a["e"] == 0 and b["e"] == 1 and b["p"] is None \
                and "payment_htlc_attempts.attempt_index" in b.get("m", "") \
                and any(o[2] in ids for ids in view.values()):
            return ("dup-attempt-id", i, "RegisterAttempt with an attempt id that is already "
                    "in use: KVStore accepts (overwrites / shares it), SQLStore rejects"), errclass
        if k in ("settle", "failatt") and a["e"] == 1 and a["p"] is None and b["e"] == 0 \
                and o[2] not in view.get(o[1], {}) \
                and any(ids.get(o[2]) == 0 for hh, ids in view.items() if hh != o[1]):
            return ("cross-payment-resolve", i, "Settle/FailAttempt through another payment's "
                    "hash: KVStore rejects, SQLStore resolves the other payment's attempt"), \
                errclass
        if a["e"] == b["e"] and a["p"] and b["p"] and a["p"]["at"] == b["p"]["at"]:
            for aid in sorted(a["p"].get("rt", {})):
                d = route_diff(nosk(a["p"])["rt"][aid], nosk(b["p"])["rt"].get(aid, {}))
                if d:
                    return ("stored-attempt", i, "%s returns attempt %s with %s: KV %r vs SQL %r"
                            % (k, aid, field_name(d[0]), d[1], d[2])), errclass
        strip = lambda p: None if p is None else {x: y for x, y in p.items() if x != "rt"}
        return ("other", i, "%s: KV %s %s vs SQL %s %s" % (
            k, ERR[a["e"]], strip(a["p"]), ERR[b["e"]], strip(b["p"]))), errclass
    return None, errclass


# ---------------------------------------------------------------------------
# Concurrent histories (harness/payments/verif_concurrent_test.go): linearisability
# against the Coq model.  Search: the model's `step` extracted to OCaml
# (ExtrOcamlBasic only; N stays the extracted Coq datatype) + ocaml/c16_lin.ml (WGL).
# Every witness order the search finds is re-validated by the Coq kernel
# (Payments/Lin.v `lin_witness_ok`, vm_compute), so "linearisable" is the kernel's
# verdict; "not linearisable" (= VIOLATION) rests on the extracted search.

EXTRACT_V = ("Require Extraction.\nRequire Import ExtrOcamlBasic.\n"
             "From LV Require Import Payments.Model Payments.Exec Payments.Lin.\n"
             'Extraction "payments_model.ml" lin_step lin_resp_eqb lin_empty lin_check_case.\n')


def build_lin_checker():
    """Extract + compile (cached on the hash of the .v inputs and the driver).
    Returns (exe or None, log)."""
    drv = os.path.join(ROOT, "ocaml", "c16_lin.ml")
    hsh = hashlib.sha1(EXTRACT_V.encode())
    for f in [os.path.join(THEORIES, "Payments", x) for x in ("Model.v", "Exec.v", "Lin.v")] + [drv]:
        hsh.update(open(f, "rb").read())
    d = os.path.join(BUILD, "c16_ocaml", hsh.hexdigest()[:16])
    exe = os.path.join(d, "c16_lin")
    with Lock("c16_ocaml"):
        if os.path.exists(exe):
            return exe, "cached"
        shutil.rmtree(os.path.join(BUILD, "c16_ocaml"), ignore_errors=True)
        os.makedirs(d)
        with open(os.path.join(d, "extract.v"), "w") as f:
            f.write(EXTRACT_V)
        rc, out = sh(["coqc", "-Q", THEORIES, "LV", "-w", "none", "extract.v"], cwd=d, timeout=600)
        if rc != 0:
            return None, "extraction failed:\n" + out
        shutil.copy(drv, d)
        rc, out2 = sh(["ocamlfind", "ocamlopt", "-O3", "-w", "-a", "payments_model.mli",
                       "payments_model.ml", "c16_lin.ml", "-o", "c16_lin.tmp"], cwd=d, timeout=600)
        if rc != 0:
            rc, out2 = sh(["ocamlfind", "ocamlopt", "-w", "-a", "payments_model.mli",
                           "payments_model.ml", "c16_lin.ml", "-o", "c16_lin.tmp"], cwd=d,
                          timeout=600)
        if rc != 0:
            return None, "ocamlopt failed:\n" + out2
        os.rename(os.path.join(d, "c16_lin.tmp"), exe)
        return exe, out + out2


def btok(n):
    return bin(int(n))[2:]


OPTOK = {"init": "i", "settle": "s", "failatt": "f", "fail": "F", "delfailed": "D",
         "fetch": "g"}


def op_tok(o):
    k = o[0]
    if k == "reg":
        return " ".join(["r", btok(o[1]), btok(o[2]), btok(o[3]), "1" if o[4] else "0",
                         btok(o[5]), btok(o[6]), "1" if o[7] else "0", btok(o[8])])
    if k == "delpay":
        return "d %s %s" % (btok(o[1]), "1" if o[2] else "0")
    if k == "inflight":
        return "l"
    return " ".join([OPTOK[k]] + [btok(x) for x in o[1:]])


def proj_tok(p):
    if p["st"] not in STATUS:     # not a status of the model: compare unequal, visibly
        return "1 0 0 %s 0 0 - 0" % btok(99999)
    return " ".join([str(p["st"]), btok(p["val"]), btok(p["rem"]), btok(p["nif"]),
                     "1" if p["hs"] else "0", "1" if p["pf"] else "0",
                     "-" if p["fr"] is None else btok(p["fr"]), str(len(p["at"]))]
                    + ["%s %s %d" % (btok(a[0]), btok(a[1]), a[2]) for a in p["at"]])


def resp_tok(r):
    t = [str(r["e"])]
    t.append("0" if r["p"] is None else "1 " + proj_tok(r["p"]))
    t.append(str(len(r["l"])))
    t += ["%s %s" % (btok(x[0]), proj_tok(x[1])) for x in r["l"]]
    return " ".join(t)


def lin_line(be, hist):
    return " ".join(["L", "0" if be == "kv" else "1", str(len(hist))]
                    + ["%d %d %s %s" % (c["inv"], c["ret"], op_tok(c["op"]), resp_tok(c["r"]))
                       for c in hist])


def seq_line(c):
    return " ".join(["S", str(len(c["steps"]))]
                    + ["%s %s %s" % (op_tok(s["op"]), resp_tok(s["kv"]), resp_tok(s["sql"]))
                       for s in c["steps"]])


def run_lin(exe, lines):
    """Feed records to the extracted checker (a few processes in parallel).
    Returns (list of output lines or None, log)."""
    from concurrent.futures import ThreadPoolExecutor
    if not lines:
        return [], ""
    nsh = max(1, min(8, NCPU // 2, len(lines) // 50 + 1))
    step = (len(lines) + nsh - 1) // nsh
    chunks = [lines[i:i + step] for i in range(0, len(lines), step)]

    def one(chunk):
        rc, out = sh([exe], stdin="\n".join(chunk) + "\n", timeout=1500)
        res = out.split("\n")[:-1] if rc == 0 else []
        if rc != 0 or len(res) != len(chunk):
            return None, "rc=%d %s" % (rc, out[-1500:])
        return res, ""
    res = []
    with ThreadPoolExecutor(max_workers=nsh) as ex:
        for v, err in ex.map(one, chunks):
            if v is None:
                return None, err
            res += v
    return res, ""


def cop_term(c):
    return "(mkCop (%s) %s %s %s)" % (op_term(c["op"]), cN(c["inv"]), cN(c["ret"]),
                                      resp_term(c["r"]))


def lin_case_term(be, hist, w):
    return "(%s, %s, %s)" % ("KV" if be == "kv" else "SQL",
                             clist([cop_term(c) for c in hist]),
                             clist([cnat(i) for i in w]))


def perturb(c, k):
    """A copy of sequential case c with ONE recorded answer changed (deterministic in
    k): used to show that the extracted checker and the kernel evaluation reject the
    same answers at the same indices."""
    import copy
    d = copy.deepcopy(c)
    n = len(d["steps"])
    si = (k * 7 + 3) % n
    be = "kv" if k % 2 == 0 else "sql"
    r = d["steps"][si][be]
    if r["p"] is not None and k % 3 != 0:
        if k % 3 == 1:
            r["p"]["rem"] += 1
        else:
            r["p"]["st"] = r["p"]["st"] % 4 + 1
    else:
        r["e"] = (r["e"] + 1 + k % 5) % len(ERR)
    return d


def overlaps(a, b):
    return a["inv"] < b["ret"] and b["inv"] < a["ret"]


def could_be_between(e, a, b):
    """e may take effect after a and before b (necessary condition on the intervals)."""
    return e["ret"] > a["inv"] and e["inv"] < b["ret"]


def conc_predicate(row, be):
    """Safety predicates on ONE backend's concurrent history, independent of the model.
    Returns [(theorem, message, index of the op)]."""
    fails = []
    hist = [c for c in row[be] if not c["r"].get("ab")]
    disc = row["mode"] == "disc"
    obs = {}          # h -> [(op record, status or None (=unknown payment), index)]
    inits, enablers, fulldel, resolved = {}, {}, {}, {}
    for i, c in enumerate(hist):
        o, r = c["op"], c["r"]
        k = o[0]
        h = o[1] if k != "inflight" else None
        ok = r["e"] == 0
        if r["e"] == 22:
            fails.append(("never_overpay", "%s answered ErrSentExceedsTotal: the store holds "
                          "more settled+in-flight value than the payment amount" % k, i))
        projs = ([(h, r["p"])] if r["p"] is not None else []) + [(x[0], x[1]) for x in r["l"]]
        for hh, p in projs:
            for m in proj_fails(p, True):
                fails.append((m.split(":")[0], m, i))
            obs.setdefault(hh, []).append((c, p["st"], i))
        if k == "fetch" and r["e"] == 5:
            obs.setdefault(h, []).append((c, None, i))
        if k == "inflight" and ok:
            for hh, p in projs:
                if p["st"] not in (1, 2):
                    fails.append(("status_truth", "FetchInFlightPayments returned a terminated "
                                  "payment", i))
        if k == "reg" and ok:
            p = r["p"]
            if p is None:
                fails.append(("register_gate", "RegisterAttempt ok without payment", i))
            elif any(a[2] == 1 for a in p["at"]) or p["fr"] is not None or p["st"] != 2:
                fails.append(("register_gate", "attempt admitted into a payment that is settled "
                              "/ failed (status %d after registration)" % p["st"], i))
        if ok and k == "init":
            inits.setdefault(h, []).append((c, i))
        if ok and (k == "fail" or (k == "delpay" and not o[2])):
            enablers.setdefault(h, []).append(c)
        if ok and k == "delpay" and not o[2]:
            fulldel.setdefault(h, []).append(c)
        if ok and k in ("settle", "failatt") and disc:
            resolved.setdefault((h, o[2]), []).append(i)
    # disciplined programs (attempt ids program-wide fresh): every attempt a store hands
    # back equals the attempt registered under that id, whichever goroutine reads it
    if disc:
        regd = {(c["op"][1], c["op"][2]): c["r"]["reg"] for c in hist
                if c["op"][0] == "reg" and c["r"]["e"] == 0 and c["r"].get("reg")}
        for i, c in enumerate(hist):
            o, r = c["op"], c["r"]
            projs = ([(o[1], r["p"])] if r["p"] is not None else []) + \
                [(x[0], x[1]) for x in r["l"]]
            for hh, p in projs:
                for aid, got in (p.get("rt") or {}).items():
                    exp = regd.get((hh, int(aid)))
                    d = route_diff(exp, got) if exp else None
                    if d:
                        fails.append(("stored_attempt", "attempt %s of payment %d handed back "
                                      "by %s: %s registered %r, stored %r"
                                      % (aid, hh, o[0], field_name(d[0]), d[1], d[2]), i))
    # at most one successful InitPayment per hash unless a Fail / full delete intervened
    for h, li in inits.items():
        en = enablers.get(h, [])
        if len(li) > 1 + len(en):
            fails.append(("init_gate", "%d successful InitPayment of hash %d but only %d "
                          "successful Fail/DeletePayment" % (len(li), h, len(en)), li[-1][1]))
        for a, ia in li:
            for b, ib in li:
                if a["ret"] < b["inv"] and not any(could_be_between(e, a, b) for e in en):
                    fails.append(("init_gate", "InitPayment of hash %d succeeded twice with no "
                                  "successful Fail/DeletePayment in between" % h, ib))
    # Succeeded is final (until the payment is deleted)
    for h, lo in obs.items():
        for a, sa, ia in lo:
            if sa != 3:
                continue
            for b, sb, ib in lo:
                if sb != 3 and a["ret"] < b["inv"] \
                        and not any(could_be_between(e, a, b) for e in fulldel.get(h, [])):
                    fails.append(("terminal_stable", "payment %d reported Succeeded, later "
                                  "reported %s without a DeletePayment in between"
                                  % (h, STATUS.get(sb, "unknown")), ib))
    # disciplined programs: an attempt is resolved at most once
    for (h, aid), li in resolved.items():
        if len(li) > 1:
            fails.append(("status_truth", "attempt %d of payment %d settled/failed "
                          "successfully %d times" % (aid, h, len(li)), li[-1]))
    return fails


def conc_stage(ctx, crows, seq_rows, seq_terms):
    """Linearisability + safety predicates on the concurrent histories; ties the extracted
    model to the kernel.  Returns (extra Coq terms, callback(bad entries)) so that the
    caller evaluates everything in ONE coq_mismatches call per kind."""
    cov = {"programs": len(crows)}
    nviol = 0
    # ---- safety predicates (all modes, both backends)
    pe = 0
    for row in crows:
        for be in ("kv", "sql"):
            pe += 1
            fl = conc_predicate(row, be)
            if fl and nviol < 4:
                nviol += 1
                th, msg, i = fl[0]
                ctx.violation("impl_violates_predicate", "C16_" + th,
                              {"backend": be, "concurrent_program": row["case"],
                               "mode": row["mode"], "first_failure": msg, "at_op": i,
                               "all": fl[:6], "history(g,op,inv,ret,answer)": row[be]},
                              signature="C16 conc %s %s: %s" % (
                                  be, th, msg.split(": ", 1)[1].split(" registered")[0]
                                  if th == "stored_attempt" else msg))
    cov["predicate_evaluations"] = pe

    # ---- linearisability (disciplined programs)
    exe, xlog = build_lin_checker()
    if exe is None:
        ctx.violation("correspondence_mismatch", "Payments.Lin (extracted checker failed to "
                      "build)", {"log": xlog[-3000:]}, signature="lin-build", failing_input=False)
        return cov, [], None
    jobs = []
    aborted = 0
    for row in crows:
        for be in ("kv", "sql"):
            ab = [c for c in row[be] if c["r"].get("ab")]
            aborted += len(ab)
            if row["mode"] != "disc":
                continue
            jobs.append((row, be, [c for c in row[be] if not c["r"].get("ab")]))
    outs, err = run_lin(exe, [lin_line(be, h) for _, be, h in jobs])
    if outs is None:
        ctx.violation("correspondence_mismatch", "Payments.Lin (extracted checker failed)",
                      {"log": err}, signature="lin-run", failing_input=False)
        return cov, [], None
    lin_terms, lin_jobs = [], []
    nonlin = 0
    states = 0
    for (row, be, h), line in zip(jobs, outs):
        head, _, st = line.partition(" # ")
        states += int(st or 0)
        t = head.split()
        w = [int(x) for x in t[1:]]
        if t[0] == "Y":
            lin_terms.append(lin_case_term(be, h, w))
            lin_jobs.append((row, be, h, w))
            continue
        nonlin += 1
        if nviol < 6:
            nviol += 1
            stuck = [h[i] for i in range(len(h)) if i not in w]
            first = min(stuck, key=lambda c: c["ret"]) if stuck else None
            ctx.violation(
                "impl_violates_predicate", "C16 linearisability (Payments.Lin)",
                {"backend": be, "concurrent_program": row["case"], "goroutines": row["ng"],
                 "what": "no order of these completed operations that respects real time makes "
                         "the sequential model give the recorded answers",
                 "longest_linearisable_prefix(positions)": w,
                 "first_unexplained_op": first,
                 "history(g,op,inv,ret,answer)": h},
                signature="C16 nonlinearisable %s %s" % (be, first["op"][0] if first else "?"))
    # ---- extraction tie on the sequential histories: every case through the extracted
    #      check_case, plus perturbed copies of a slice through BOTH evaluators
    slice_ = [c for c in seq_rows if c["mode"] != "wrap"][:40]
    pert = [perturb(c, k) for k, c in enumerate(slice_)]
    souts, err = run_lin(exe, [seq_line(c) for c in seq_rows + pert])
    if souts is None:
        ctx.violation("correspondence_mismatch", "Payments.Lin (extracted check_case failed)",
                      {"log": err}, signature="lin-run", failing_input=False)
        return cov, [], None
    extracted = [[int(x) for x in l.split()[1:]] for l in souts]
    pert_terms = [case_term(c) for c in pert]

    def after(seq_bad, lin_bad, ok_lin):
        """seq_bad: kernel result for seq_rows + pert (case index -> indices)."""
        kb = dict(seq_bad)
        dis = 0
        for i in range(len(seq_rows) + len(pert)):
            if kb.get(i, []) != extracted[i]:
                dis += 1
                if dis <= 2:
                    c = (seq_rows + pert)[i]
                    ctx.violation("correspondence_mismatch",
                                  "extracted model vs kernel evaluation disagree",
                                  {"case": c["case"], "perturbed": i >= len(seq_rows),
                                   "kernel": kb.get(i, []), "extracted": extracted[i]},
                                  signature="extraction", failing_input=False)
        undetected = [k for k in range(len(pert)) if not kb.get(len(seq_rows) + k)]
        if undetected:
            ctx.violation("correspondence_mismatch", "perturbed answer not rejected by the model",
                          {"perturbed_cases": undetected[:5]}, signature="perturbation",
                          failing_input=False)
        cov["extraction_tie"] = {"sequential_cases_through_both": len(seq_rows),
                                 "perturbed_cases_through_both": len(pert),
                                 "disagreements": dis,
                                 "perturbations_rejected_by_both": len(pert) - len(undetected)}
        if not ok_lin:
            return
        for ci, idx in lin_bad[:3]:
            row, be, h, w = lin_jobs[ci]
            ctx.violation("correspondence_mismatch", "Payments.Lin.lin_witness_ok (kernel rejects "
                          "the witness order found by the extracted search)",
                          {"backend": be, "concurrent_program": row["case"], "witness": w,
                           "rejected_at": idx, "history": h},
                          signature="C16 lin-witness-rejected %s" % be, failing_input=False)
        cov["witnesses_validated_by_kernel"] = len(lin_jobs) - len(lin_bad)

    # ---- coverage of the concurrent run
    opk, errk, modes, ngs = {}, {"kv": {}, "sql": {}}, {}, {}
    ovl = tot = nops = reord = 0
    for row in crows:
        modes[row["mode"]] = modes.get(row["mode"], 0) + 1
        ngs[row["ng"]] = ngs.get(row["ng"], 0) + 1
        for be in ("kv", "sql"):
            h = row[be]
            nops += len(h)
            for c in h:
                key = c["op"][0] + (":ok" if c["r"]["e"] == 0 else ":err")
                opk[key] = opk.get(key, 0) + 1
                e = ERR[c["r"]["e"]]
                errk[be][e] = errk[be].get(e, 0) + 1
            for i, a in enumerate(h):
                for b in h[i + 1:]:
                    tot += 1
                    ovl += overlaps(a, b)
    cshapes = {}
    for row in crows:
        for c in row["kv"]:
            if c["op"][0] == "reg":
                k = shape_key(c["op"])
                cshapes[k] = cshapes.get(k, 0) + 1
    cov["route_shapes(register ops, per backend)"] = cshapes
    for row, be, h, w in lin_jobs:
        # witness differs from the order of invocation: the search had to reorder
        byinv = sorted(range(len(h)), key=lambda i: h[i]["inv"])
        reord += (byinv != w)
    cov.update({"histories": 2 * len(crows), "ops_total": nops, "modes": modes,
                "goroutines": ngs, "op_kinds": opk, "error_kinds": errk,
                "overlapping_op_pairs": ovl, "op_pairs": tot,
                "linearisability_checked": len(jobs), "non_linearisable": nonlin,
                "witness_not_in_invocation_order": reord,
                "search_states": states, "aborted_ops(serialization/busy, dropped)": aborted,
                "kv_sql_final_states_differ": sum(
                    1 for row in crows if row["mode"] == "disc" and
                    [c["r"] for c in row["kv"] if c["g"] == -2] !=
                    [c["r"] for c in row["sql"] if c["g"] == -2])})
    return cov, (pert_terms, lin_terms), after


def run(ctx):
    pr = ctx.proof_stage(MODULE, THEOREMS, TARGETS, extra_trusted=[
        "one model step = one DB transaction (kvdb.Batch/Update, sqldb ExecTx): bbolt/sqlite "
        "atomicity and rollback-on-error are assumed, exercised by the harness",
        "domain guard of C16_never_overpay: payment values and attempt amounts < 2^63 msat "
        "(uint64 sums cannot wrap); outside it C16_overpay_beyond_uint64_refuted holds",
        "C16_refinement_partial hypothesis: attempt ids globally fresh at registration and "
        "settle/fail addressed through the owning payment hash (what the router does)",
        "concurrent histories: a 'linearisable' verdict is the Coq kernel's (lin_witness_ok by "
        "vm_compute on the witness order, sound by C16_lin_checker_sound); a 'not linearisable' "
        "verdict additionally trusts Coq extraction (ExtrOcamlBasic) + ocaml/c16_lin.ml (WGL "
        "search), cross-checked against vm_compute on the sequential and on perturbed histories"])
    if ctx.replay:
        # --replay of a recorded concurrent history (a non-linearisable history or a
        # predicate failure): the schedule cannot be re-enacted, the recorded history IS
        # the failing input; re-judge it with the current model / predicates.
        rp = json.load(open(ctx.replay))
        det = rp.get("detail", {})
        hist = det.get("history(g,op,inv,ret,answer)")
        if hist and det.get("backend") in ("kv", "sql"):
            be = det["backend"]
            row = {"case": det.get("concurrent_program"), "mode": det.get("mode", "disc"),
                   "ng": det.get("goroutines"), be: hist}
            for th, msg, i in conc_predicate(row, be)[:1]:
                ctx.violation("impl_violates_predicate", "C16_" + th,
                              {"backend": be, "first_failure": msg, "at_op": i,
                               "history(g,op,inv,ret,answer)": hist},
                              signature="C16 conc %s %s: %s" % (be, th, msg))
            exe, xlog = build_lin_checker()
            outs, err = run_lin(exe, [lin_line(be, hist)]) if exe else (None, xlog)
            if outs is None:
                ctx.violation("harness_failed", "replay", {"log": err}, signature="lin-run",
                              failing_input=False)
            elif outs[0].startswith("N") and row["mode"] == "disc":
                ctx.violation("impl_violates_predicate", "C16 linearisability (Payments.Lin)",
                              {"backend": be, "checker_output": outs[0],
                               "history(g,op,inv,ret,answer)": hist},
                              signature="C16 nonlinearisable %s replay" % be)
            else:
                ctx.note("replayed history: " + outs[0])
            ctx.cov.update({"evaluations": 1, "rule": "replay of one recorded history"})
            return
    import time as _time
    t_proof = _time.time() - ctx.t0
    env = {}
    if ctx.thorough:
        env["VERIF_CHUNK"] = "40"
    # one `go test` run (one compile): the sequential correspondence test and the
    # concurrent test; the latter writes its histories to VERIF_OUT_CONC
    ctrace = os.path.join(BUILD, "trace_%s_conc.jsonl" % ctx.uid())
    try:
        os.remove(ctrace)
    except FileNotFoundError:
        pass
    env["VERIF_OUT_CONC"] = ctrace
    rc, trace, out = run_harness(ctx.uid(), "payments/db", HARNESS,
                                 "^(TestVerifPayments|TestVerifPaymentsConc)$",
                                 env=env, tags="verif test_db_sqlite", timeout=2400,
                                 race=False)
    t_harness = _time.time() - ctx.t0 - t_proof
    rows = read_jsonl(trace)
    crows = read_jsonl(ctrace)
    ctx.cov["stage_wall_s"] = {"proof_stage": round(t_proof, 1), "go_harness": round(t_harness, 1)}
    if rc != 0 or not rows or not crows:
        ctx.violation("harness_failed", "TestVerifPayments/TestVerifPaymentsConc",
                      {"log": out[-4000:]}, signature="harness", failing_input=False)
        return
    crows.sort(key=lambda r: r["case"])
    # directed finding case C16-F4: custom record keys >= 2^63 at the three sites where the
    # SQL store casts the key to int64 (hop record, first-hop wire record of the attempt,
    # InitPayment's first-hop record).  Judged under ONE signature when the divergence is
    # exactly "KV accepts, SQL refuses with the key CHECK"; agreement (both accept with the
    # same answers / both refuse) is fine; anything else is an unexpected divergence.
    probes = [c for c in rows if c["mode"] == "probe"]
    rows = [c for c in rows if c["mode"] != "probe"]
    SITES = {1: "hop custom record (RegisterAttempt -> InsertPaymentHopCustomRecord)",
             4: "attempt first-hop wire custom record (RegisterAttempt -> "
                "InsertPaymentAttemptFirstHopCustomRecord)",
             6: "payment first-hop custom record (InitPayment -> "
                "InsertPaymentFirstHopCustomRecord)"}
    for c in probes:
        sites, refused, odd = {}, [], []
        for i, name in SITES.items():
            st = c["steps"][i]
            a, b = st["kv"], st["sql"]
            sites[name] = {"op": st["op"], "kv": ERR[a["e"]],
                           "sql": ERR[b["e"]] + (": " + b.get("m", "")[:140] if b["e"] else "")}
            if a["e"] == 0 and b["e"] == 1 and "CHECK constraint failed: key" in b.get("m", ""):
                refused.append(name)
            elif not (a["e"] == b["e"] and nosk(a["p"]) == nosk(b["p"])):
                odd.append(name)
        # the observations after each site must agree unless that site diverged
        for i, j in ((1, 2), (4, 5), (6, 7)):
            a, b = c["steps"][j]["kv"], c["steps"][j]["sql"]
            if SITES[i] not in refused and not (a["e"] == b["e"] and nosk(a["p"]) == nosk(b["p"])):
                odd.append(SITES[i] + " (following fetch)")
        ctx.cov["custom_record_key_int64_case"] = sites
        if refused:
            ctx.violation("impl_violates_predicate", "C16_backends_differ_refuted",
                          {"what": "custom record key >= 2^63: KVStore accepts, SQLStore refuses "
                                   "(key cast to int64, CHECK key >= 65536)",
                           "sites_diverging": refused, "sites": sites,
                           "minimal_history": [s["op"] for s in c["steps"][:2]],
                           "custom_record": {"key": 2 ** 63 + 5, "value": "01"}},
                          signature="C16 kvsql:custom-record-key-int64")
        if odd:
            ctx.violation("impl_violates_predicate", "C16_refinement_partial",
                          {"what": "custom record key >= 2^63: backends differ other than by "
                                   "the known SQL refusal", "sites": sites, "odd": odd,
                           "history": [s["op"] for s in c["steps"]]},
                          signature="C16 kvsql-unexpected:custom-record-key " + odd[0])

    # ---- property predicate on the implementation's own answers
    nviol = 0
    pred_evals = 0
    for c in rows:
        for be in ("kv", "sql"):
            pred_evals += 1
            fl = predicate(c, be)
            if fl and nviol < 4:
                nviol += 1
                th, msg, i = fl[0]
                ctx.violation("impl_violates_predicate", "C16_" + th,
                              {"backend": be, "case": c["case"], "mode": c["mode"],
                               "first_failure": msg, "at_step": i, "all": fl[:6],
                               "history": [s["op"] for s in c["steps"][:i + 1]],
                               "answers": [s[be] for s in c["steps"][:i + 1]]},
                              signature="C16 %s %s: %s" % (be, th, msg))

    # ---- stored attempts: what the stores hand back = what was registered
    rb_cmp = rb_bad = q_cmp = q_bad = 0
    flagged = set()        # cases with a concrete failing history already reported
    for c in rows:
        for be in ("kv", "sql"):
            fl, n = readback_fails(c, be)
            rb_cmp += n
            if fl:
                rb_bad += 1
                flagged.add(c["case"])
                if rb_bad <= 3:
                    msg, i, path = fl[0]
                    ctx.violation("impl_violates_predicate",
                                  "C16 stored attempt = registered attempt (input of "
                                  "C16_register_gate / C16_refinement_partial)",
                                  {"backend": be, "case": c["case"], "mode": c["mode"],
                                   "shape": c.get("shape"), "first_failure": msg, "at_step": i,
                                   "history": [s["op"] for s in c["steps"][:i + 1]],
                                   "registered": [s[be].get("reg") for s in c["steps"][:i + 1]
                                                  if s["op"][0] == "reg" and s[be]["e"] == 0],
                                   "all": [m for m, _, _ in fl[:4]]},
                                  signature="C16 %s stored-attempt: %s lost or altered"
                                            % (be, field_name(path)))
        if c["mode"] != "wrap":
            qf = query_fails(c, cross=kvsql_compare(c)[0] is None)
            q_cmp += 1 if c.get("query") else 0
            q_bad += bool(qf)
            if qf and q_bad <= 2:
                flagged.add(c["case"])
                ctx.violation("impl_violates_predicate", "C16_status_truth (QueryPayments)",
                              {"case": c["case"], "mode": c["mode"], "failures": qf[:3],
                               "history": [s["op"] for s in c["steps"]]},
                              signature="C16 query: " + qf[0].split(" reports")[0][:60])

    # ---- KV vs SQL, directly on the implementation
    div = {}
    errclasses = set()
    for c in rows:
        d, ec = kvsql_compare(c)
        if c["mode"] != "wrap":
            errclasses |= ec
        if d is None:
            continue
        kind, i, desc = d
        if c["mode"] == "wrap" and kind == "other":
            continue        # outside the amount domain the stores may answer differently
        detail = {"case": c["case"], "mode": c["mode"], "at_step": i, "what": desc,
                  "minimal_history": [s["op"] for s in c["steps"][:i + 1]],
                  "kv_answers": [s["kv"] for s in c["steps"][:i + 1]][-3:],
                  "sql_answers": [s["sql"] for s in c["steps"][:i + 1]][-3:]}
        if kind in ("dup-attempt-id", "cross-payment-resolve") \
                and c["mode"] in ("wild", "witness"):
            # the two genuine differences witnessed by C16_backends_differ_refuted; the
            # directed witness cases come first, so the recorded history is minimal
            if kind not in div:
                div[kind] = detail
            continue
        # anything else — or any divergence on a disciplined history — is new
        flagged.add(c["case"])
        if nviol < 6:
            nviol += 1
            ctx.violation("impl_violates_predicate", "C16_refinement_partial", detail,
                          signature="C16 kvsql-unexpected:%s %s" % (
                              kind, desc.split(": KV ")[0] if kind == "stored-attempt" else desc))
    for kind, detail in sorted(div.items()):
        ctx.violation("impl_violates_predicate", "C16_backends_differ_refuted", detail,
                      signature="C16 kvsql:%s" % kind)
    if errclasses:
        ctx.violation("impl_violates_predicate", "C16_backends_differ_refuted",
                      {"what": "same decision and state, different error sentinel",
                       "pairs(op:KV/SQL)": sorted(errclasses),
                       "minimal_history": [["reg", 0, 1, 5, True, 1, 1000, False, 0],
                                           ["delpay", 0, False]]},
                      signature="C16 kvsql:errclass")

    # ---- correspondence: model (KV step, SQL step) vs both implementations
    terms = [case_term(c) for c in rows]
    # ---- concurrent histories: predicates, linearisability search (extracted model);
    #      its Coq obligations (perturbed sequential cases, witness orders) are evaluated
    #      by the kernel below
    ccov, extra, after = conc_stage(ctx, crows, rows, terms)
    ctx.cov["concurrent"] = ccov
    pert_terms, lin_terms = extra if after else ([], [])
    from concurrent.futures import ThreadPoolExecutor
    with ThreadPoolExecutor(max_workers=2) as ex:
        f1 = ex.submit(coq_mismatches, ctx.uid(), IMPORTS, terms + pert_terms,
                       shard=max(4, (len(terms) + len(pert_terms)) // (2 * NCPU) + 1))
        f2 = ex.submit(coq_mismatches, ctx.uid("lin"), IMPORTS_LIN, lin_terms,
                       shard=max(4, len(lin_terms) // NCPU + 1), mism="lin_mismatches")
        ok, bad_all, logs = f1.result()
        ok_lin, lin_bad, lin_logs = f2.result()
    bad = [(ci, idx) for ci, idx in bad_all if ci < len(rows)]
    if after:
        if not ok_lin:
            ctx.violation("correspondence_mismatch", "Payments.Lin (witness evaluation failed)",
                          {"logs": lin_logs}, signature="model-eval", failing_input=False)
        if ok:
            after(bad_all, lin_bad, ok_lin)
    if not ok:
        ctx.violation("correspondence_mismatch", "Payments.Exec (model evaluation failed)",
                      {"logs": logs}, signature="model-eval", failing_input=False)
    for ci, idx in bad[:3]:
        c = rows[ci]
        first = idx[0]
        si, be = first // 2, ("kv" if first % 2 == 0 else "sql")
        ctx.violation("correspondence_mismatch", "Payments.Exec.check_case",
                      {"case": c["case"], "mode": c["mode"], "backend": be, "at_step": si,
                       "history": [s["op"] for s in c["steps"][:si + 1]],
                       "implementation_answer": c["steps"][si][be],
                       "mismatch_indices(2*step+backend)": idx[:10]},
                      signature="C16 model mismatch %s %s" % (be, c["steps"][si]["op"][0]),
                      failing_input=bool(predicate(c, be)) or c["case"] in flagged)
    if not pr["ok"] and not ctx.violations:
        ctx.violation("proof_broken", ", ".join(pr["broken"]) or "Payments build",
                      {"log": pr["log"][-4000:]}, signature="proof", failing_input=False)

    # ---- coverage
    modes, opk, errk, stat = {}, {}, {"kv": {}, "sql": {}}, {}
    nsteps = 0
    for c in rows:
        modes[c["mode"]] = modes.get(c["mode"], 0) + 1
        nsteps += len(c["steps"])
        for s in c["steps"]:
            k = s["op"][0]
            key = k + (":ok" if s["kv"]["e"] == 0 else ":err")
            opk[key] = opk.get(key, 0) + 1
            for be in ("kv", "sql"):
                e = ERR[s[be]["e"]]
                errk[be][e] = errk[be].get(e, 0) + 1
            if s["kv"]["p"]:
                st = STATUS.get(s["kv"]["p"]["st"], "?")
                stat[st] = stat.get(st, 0) + 1
    shapes, nshape_ops = {}, 0
    for c in rows:
        for s in c["steps"]:
            if s["op"][0] == "reg":
                nshape_ops += 1
                k = shape_key(s["op"]) + (":ok" if s["kv"]["e"] == 0 else ":refused")
                shapes[k] = shapes.get(k, 0) + 1
    optional = {}
    for c in rows:
        for s in c["steps"]:
            if s["op"][0] == "reg" and len(s["op"]) > 9 and s["op"][9]:
                for f in ("amp", "md", "cr", "fh", "fee", "tl", "nobp"):
                    if s["op"][9].get(f):
                        optional[f] = optional.get(f, 0) + 1
    ctx.cov.update({
        "route_shapes(register ops)": shapes,
        "route_optional_fields(register ops)": optional,
        "shape_universe_cases": sum(1 for c in rows if c["mode"] == "shape"),
        "stored_attempt_comparisons": rb_cmp, "stored_attempt_histories_bad": rb_bad,
        "query_payments_comparisons": q_cmp,
        "evaluations": len(rows),
        "distinct_nontrivial": distinct_count(
            [c for c in rows if sum(1 for s in c["steps"] if s["op"][0] == "reg"
                                    and s["kv"]["e"] == 0) >= 1],
            lambda c: [s["op"] for s in c["steps"]]),
        "rule": "seeded histories over 2-3 payment hashes; modes: disc (fresh attempt ids, "
                "router-like targets), wild (ids from a pool of 5, arbitrary targets), wrap "
                "(amounts near 2^63/2^64), witness (the Coq witnesses), shape (enumerated route "
                "shapes x one multi-shard history); every register op carries a route shape "
                "(hops, blinded tail, optional records); non-trivial = at least "
                "one accepted registration; distinct by full op list",
        "traces_validated_against_impl": 2 * len(rows),
        "predicate_evaluations": pred_evals,
        "steps_total": nsteps, "case_modes": modes, "op_kinds": opk,
        "error_kinds": errk, "status_seen": stat,
        "kvsql_divergence_kinds": sorted(div.keys()), "kvsql_errclass_pairs": sorted(errclasses),
        "samples": [[s["op"] for s in rows[min(8, len(rows) - 1)]["steps"][:8]]],
        "correspondence_mismatches": len(bad),
    })
    ctx.assumptions += [
        "bbolt / sqlite transactions are atomic (one model step per API call)",
        "amounts < 2^63 msat for the never-overpay theorem",
        "concurrent callers: every recorded 2-4 goroutine history of either real store must be "
        "linearisable to the model (checked on sampled schedules: Go scheduler / bbolt batcher / "
        "sqlite lock with barrier start and jitter; not an enumeration of schedules)",
        "a sqlite serialization/busy/retries-exceeded error is an operation that did not happen "
        "(sqldb.ExecuteSQLTransactionWithRetry rolls back before returning it)"]
    if ctx.thorough:
        ctx.coqchk(["LV.Payments.Props"])
