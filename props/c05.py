"""C05 — whichever commitment confirms, the node holds valid spends.

Ledger layer (resolutions / claimable; Channel/Punish*.v, harness/lnwallet/verif_punish_test.go)
+ the script layer (props/c0405_script.py) as an extra stage."""
from props import punish_check

WARM = punish_check.WARM


def run(ctx):
    punish_check.run_prop(ctx, "C05")
