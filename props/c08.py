"""C08 — a forwarding node never ends up out of pocket: hops settle or fail together.

Proof stage: theorems about the Forward model (coq/theories/Forward).
Tie: trace recogniser — the real three-hop fixture (real links, switch, circuit
map, lnwallet channels) runs seeded batches of concurrent payments WITH INJECTED
FAULTS (link stop/start = peer reconnect with channel_reestablish, restart of the
forwarder's whole switch on the same database, message loss followed by a
reconnect, message delays; plus one directed restart scenario); the model,
evaluated by vm_compute, must accept the observed event order (ELinkRestart /
ERestart included) and agree with the observed end state.  Independently of the
model, the property predicate is evaluated on the implementation's own wire trace
and quiescent end state.
"""
import hashlib
import re
import os

from lib.verif import *

THEOREMS = [
    "C08_settle_needs_preimage", "C08_settle_needs_preimage_trace",
    "C08_fail_back_safe", "C08_fail_back_final",
    "C08_quiescent_balance", "C08_quiescent_total",
]
MODULE = "LV.Forward.Props"
TARGETS = ["theories/Forward/Props.vo", "theories/Forward/Exec.vo",
           "theories/Forward/Examples.vo"]
HARNESS = ["htlcswitch/verif_threehop_test.go", "htlcswitch/verif_threehop_sp_test.go"]
WARM = [{"pkg": "htlcswitch", "files": HARNESS}]
IMPORTS = ("From Coq Require Import List NArith ZArith.\nImport ListNotations.\n"
           "From LV Require Import Forward.Model Forward.Exec.\n")

FAIL_KINDS = ("unknown", "wrongamt", "hold_cancel", "lowfee", "belowmin", "badroute")


def ck(c, i):
    return "(%d%%N, %d%%N)" % (c, i)


def hx(h):
    return "%d%%N" % int(h, 16)


# ---------------------------------------------------------------------------
# implementation trace -> model events


SYNTH = {}     # counted reasons for synthesised model events (coverage)


def to_events(case):
    """Translate the recorded implementation events into model events.
    Returns (list of (coq_term, source_index), problems)."""
    spec = {p["hash"]: p for p in case["pays"]}
    evs, probs = [], []
    k_of_out = {}
    resp = set()
    known = set()
    fail_recv = set()  # outgoing htlcs for which a fail was received from downstream
    fresh = set()      # circuits committed as Adds whose packet has not visibly reached anything yet

    def emit(t, i):
        evs.append((t, i))

    for i, e in enumerate(case["events"]):
        t = e[0]
        if t == "w" and e[1] == "b":
            ch, kind, idn, amt, h = e[2], e[3], e[4], e[5], e[6]
            if e[7]:
                continue          # dropped before the link saw it
            if kind == "add":
                p = spec.get(h)
                if p is None:
                    probs.append("add with unknown hash at %d" % i)
                    continue
                if (ch, idn) in known:
                    continue      # retransmission after a restart
                known.add((ch, idn))
                emit("ELockIn %s %s %d%%N %d%%N %d%%N" %
                     (ck(ch, idn), hx(h), amt, p["amt"], p["out_chan"]), i)
            elif kind in ("fail", "mal"):
                fail_recv.add((ch, idn))
            elif kind == "ful":
                k = k_of_out.get((ch, idn))
                if k is None:
                    probs.append("fulfil for unknown outgoing htlc at %d" % i)
                    continue
                emit("ECirc %s (AOutSettle %s %s)" % (ck(*k), ck(ch, idn), hx(h)), i)
        elif t == "g":
            # SignNextCommitment + ackDownStreamPackets done (the commit_sig message itself may
            # never be sent when the link is stopping, and is REsent after a reconnect)
            emit("ESig %d%%N" % e[1], i)
        elif t == "n":
            kind = e[1]
            if kind == "final":
                continue
            et, ic, ii, oc, oi = e[2], e[3], e[4], e[5], e[6]
            if et != 2:
                probs.append("non-forward notifier event at the forwarder at %d" % i)
                continue
            k = (ic, ii)
            fresh.discard(k)
            if kind == "fwd":
                k_of_out[(oc, oi)] = k
                emit("ECirc %s (AOutAdd %s)" % (ck(*k), ck(oc, oi)), i)
            elif kind == "settle":
                emit("ECirc %s (AInSettle %s)" % (ck(*k), hx(e[7])), i)
            elif kind == "fwdfail":
                emit("ECirc %s AInFail" % ck(*k), i)
            elif kind == "linkfail":
                if e[7]:
                    emit("ECirc %s AReject" % ck(*k), i)
                else:
                    if k not in resp:
                        emit("ECirc %s ASwitchFail" % ck(*k), i)
                        resp.add(k)
                    emit("ECirc %s AInFail" % ck(*k), i)
        elif t == "c":
            op = e[1]
            if op == "commit" and e[5]:
                continue      # the circuit batch was not written (database stop point)
            if op == "commit":
                for k in e[2]:
                    fresh.add(tuple(k))
                    emit("ECirc %s (AFwd FAdd)" % ck(*k), i)
                for k in e[3]:
                    emit("ECirc %s (AFwd FDrop)" % ck(*k), i)
                for k in e[4]:
                    emit("ECirc %s (AFwd FFail)" % ck(*k), i)
                    resp.add(tuple(k))
            elif op == "delete" and not e[3]:
                # outside a signature a circuit is deleted only when ForwardPackets abandons a packet
                # it has just committed (C08-F2 repair): the model checks that the packet was still live
                for k in e[2]:
                    if tuple(k) in fresh and tuple(k) not in resp:
                        fresh.discard(tuple(k))
                        emit("ECirc %s AAbandon" % ck(*k), i)
            elif op == "open" and not e[3]:
                for q in e[2]:
                    emit("ECirc %s (AOpen %s)" % (ck(q[0], q[1]), ck(q[2], q[3])), i)
            elif op == "close" and e[4] == "":
                k = tuple(e[3])
                resp.add(k)
                ok_ = tuple(e[2])
                if ok_ in fail_recv and (ok_[0], ok_[1], "f") not in known:
                    # A locked-in fail whose hand-over to the switch was NOT seen at the link's
                    # ForwardPackets wrapper: the link quit between ReceiveRevocation (forwarding
                    # package written) and processRemoteSettleFails, and after the node restart the
                    # SWITCH itself replays the package (Switch.Start: reforwardResponses), which no
                    # wrapper observes.  The close of the circuit is that hand-over.
                    known.add((ok_[0], ok_[1], "f"))
                    SYNTH["AOutFail_at_switch_start_replay"] = SYNTH.get("AOutFail_at_switch_start_replay", 0) + 1
                    emit("ECirc %s (AOutFail %s)" % (ck(*k), ck(*ok_)), i)
                emit("ECirc %s (AClose %s)" % (ck(*k), ck(*e[2])), i)
            elif op == "fail" and e[3] == "":
                k = tuple(e[2])
                fresh.discard(k)
                resp.add(k)
                emit("ECirc %s AOutAddFail" % ck(*k), i)
        elif t == "p":
            if e[2] == "fail":
                k = k_of_out.get((e[3], e[4]))
                if k is None:
                    probs.append("fail packet for unknown outgoing htlc at %d" % i)
                    continue
                if (e[3], e[4], "f") in known:
                    continue      # re-forwarded after a restart
                known.add((e[3], e[4], "f"))
                emit("ECirc %s (AOutFail %s)" % (ck(*k), ck(e[3], e[4])), i)
        elif t == "x" and e[1] == "restart":
            resp.clear()
            emit("ERestart", i)
        elif t == "x" and e[1] == "linkrestart":
            emit("ELinkRestart %d%%N" % e[2], i)
    return evs, probs


def case_term(case, evs):
    bob = {e["name"]: e for e in case["end"]}
    bob0 = {e["name"]: e for e in case["init"]}
    b0 = "[(1%%N, (%d)%%Z); (2%%N, (%d)%%Z)]" % (bob0["bob1"]["local"], bob0["bob2"]["local"])
    fb = "[(1%%N, (%d)%%Z); (2%%N, (%d)%%Z)]" % (bob["bob1"]["local"], bob["bob2"]["local"])
    np_, no_ = case["circuits"][1]
    return "(%s, %s, (%s, %d%%N, %d%%N, %s))" % (
        b0, clist([t for t, _ in evs]), fb, np_, no_, cbool(case["quiescent"]))


# ---------------------------------------------------------------------------
# property predicate on the implementation's own trace (model-independent)


def sha(hexpre):
    return hashlib.sha256(bytes.fromhex(hexpre)).hexdigest()


def predicate(case):
    """Returns list of (theorem, message)."""
    fails = []
    ev = case["events"]
    faulty = any(x[0] == "x" for x in ev)
    in_hash = {}       # (ch,id) -> hash of adds Bob received
    out_adds = {}      # hash -> list of (t, ch, id) adds Bob sent
    for i, e in enumerate(ev):
        if e[0] == "w" and e[1] == "b" and e[3] == "add" and not e[7]:
            in_hash.setdefault((e[2], e[4]), e[6])
        if e[0] == "s" and e[2] == "add":
            out_adds.setdefault(e[5], []).append((i, e[1], e[3]))

    fwd_insts = {}     # incoming (ch,id) -> [(t, och, oid)]: outgoing add entered the outgoing update log
    for i, e in enumerate(ev):
        if e[0] == "n" and e[1] == "fwd":
            fwd_insts.setdefault((e[3], e[4]), []).append((i, e[5], e[6]))

    def fault_after(t, och, before):
        """first restart of the link of channel och (or of the whole node) in (t, before)"""
        for j in range(t + 1, before):
            x = ev[j]
            if x[0] == "x" and (x[1] == "restart" or (x[1] == "linkrestart" and x[2] == och)):
                return j
        return None

    def signed_between(t, u, ch):
        return any(ev[j][0] == "g" and ev[j][1] == ch for j in range(t + 1, u))

    def signed_after(t, before, ch):
        # "g" = updateCommitTx signed; after a reconnect lnwallet itself signs the commitment it
        # owes (ProcessChanSyncMsg), visible only as a commit_sig sent by the forwarder
        for j in range(t + 1, before):
            if (ev[j][0] == "g" and ev[j][1] == ch) or \
                    (ev[j][0] == "s" and ev[j][1] == ch and ev[j][2] == "sig"):
                return j
        return None

    def recv_before(t, ch, kinds, idn=None, after=-1):
        for j in range(after + 1, t):
            x = ev[j]
            if x[0] == "w" and x[1] == "b" and x[2] == ch and x[3] in kinds and not x[7] \
                    and (idn is None or x[4] == idn):
                return j
        return None

    def sent_before(t, ch, kind, after=-1):
        for j in range(after + 1, t):
            x = ev[j]
            if x[0] == "s" and x[1] == ch and x[2] == kind:
                return j
        return None

    for i, e in enumerate(ev):
        # --- settle upstream only with the preimage learned downstream
        if e[0] == "s" and e[2] == "ful":
            ch, idn, pre = e[1], e[3], e[5]
            h = in_hash.get((ch, idn))
            if h is None:
                fails.append(("C08_settle_needs_preimage",
                              "settle sent for unknown incoming htlc %s" % [ch, idn]))
                continue
            if sha(pre) != h:
                fails.append(("C08_settle_needs_preimage",
                              "incoming htlc %s settled with a preimage that does not hash to its payment hash"
                              % [ch, idn]))
            ok = False
            for (t0, och, oid) in out_adds.get(h, []):
                if t0 < i:
                    for j in range(t0, i):
                        x = ev[j]
                        if x[0] == "w" and x[1] == "b" and x[2] == och and x[3] == "ful" \
                                and x[4] == oid and x[6] == pre and not x[7]:
                            ok = True
            if not ok:
                fails.append(("C08_settle_needs_preimage",
                              "incoming htlc %s settled before its preimage was received on the outgoing htlc"
                              % [ch, idn]))
        # --- fail upstream only once the outgoing twin is gone for good
        if e[0] == "s" and e[2] in ("fail", "mal"):
            ch, idn = e[1], e[3]
            if (ch, idn) not in in_hash:
                fails.append(("C08_fail_back_safe",
                              "fail sent for unknown incoming htlc %s" % [ch, idn]))
                continue
            insts = fwd_insts.get((ch, idn), [])
            if any(t0 > i for (t0, _, _) in insts):
                fails.append(("C08_fail_back_safe",
                              "incoming htlc %s failed back, outgoing twin added afterwards" % [ch, idn]))
            twins = sorted(set((och, oid) for (t0, och, oid) in insts if t0 < i))
            for (och, oid) in twins:
                sends = [t0 for (t0, c_, i_) in insts if (c_, i_) == (och, oid) and t0 < i]
                # (a) never committed: every time the add entered the outgoing update log, the link
                #     was restarted before it signed
                lost = True
                for k, t0 in enumerate(sends):
                    nxt = sends[k + 1] if k + 1 < len(sends) else i
                    tf = fault_after(t0, och, nxt)
                    if tf is None or signed_between(t0, tf, och):
                        lost = False
                if lost:
                    continue
                # (b) irrevocably removed
                t1s = [j for j in range(sends[0], i)
                       if ev[j][0] == "w" and ev[j][1] == "b" and ev[j][2] == och
                       and ev[j][3] in ("fail", "mal") and ev[j][4] == oid and not ev[j][7]]
                if not t1s:
                    fails.append(("C08_fail_back_safe",
                                  "incoming htlc %s failed back while outgoing htlc %s was never failed downstream"
                                  % ([ch, idn], [och, oid])))
                    continue
                ok = False
                for t1 in t1s:
                    if faulty:
                        # necessary under any interleaving with reconnects: a commit_sig received
                        # after the fail, and a revocation received after Bob signed after the fail
                        t2 = recv_before(i, och, ("sig",), None, t1)
                        t3 = signed_after(t1, i, och)
                        t4 = recv_before(i, och, ("rev",), None, t3) if t3 is not None else None
                        ok = ok or (t2 is not None and t4 is not None)
                    else:
                        t2 = recv_before(i, och, ("sig",), None, t1)
                        t2b = sent_before(i, och, "rev", t2) if t2 is not None else None
                        t3 = sent_before(i, och, "sig", t2b) if t2b is not None else None
                        t4 = recv_before(i, och, ("rev",), None, t3) if t3 is not None else None
                        ok = ok or t4 is not None
                if not ok:
                    fails.append(("C08_fail_back_safe",
                                  "incoming htlc %s failed back before the removal of outgoing htlc %s was locked in"
                                  % ([ch, idn], [och, oid])))
        # --- no outgoing HTLC for an incoming HTLC that was already settled upstream
        if e[0] == "s" and e[2] == "ful":
            late = [t0 for (t0, _, _) in fwd_insts.get((e[1], e[3]), []) if t0 > i]
            if late:
                fails.append(("C08_quiescent_balance",
                              "incoming htlc %s was settled upstream, yet an outgoing htlc was added for it "
                              "afterwards" % [e[1], e[3]]))
        if e[0] == "p" and e[2] == "fail" and e[6]:
            fails.append(("C08_fail_back_safe",
                          "fail of outgoing htlc %s handed to the switch while still active on a commitment"
                          % [e[3], e[4]]))
        if e[0] == "n" and e[1] == "settle":
            h = in_hash.get((e[3], e[4]))
            if h is not None and sha(e[7]) != h:
                fails.append(("C08_settle_needs_preimage", "settle event with a wrong preimage"))

    # --- forwarding-package bookkeeping: the same incoming add always carries the same source ref
    for o in source_ref_changes(case)[:1]:
        fails.append(("C08_quiescent_balance",
                      "incoming htlc %s re-forwarded after a restart with forwarding-package index %s "
                      "(was %s): its response will ack the wrong add" %
                      (o["incoming_htlc"], o["source_ref_replay"], o["source_ref_first"])))

    # --- exactly-once hand-over / exactly one response (also C07's switch stage)
    fails += [("C08_quiescent_balance", m) for m in at_most_once(case)]

    # --- quiescent end state: before the closing restarts (end1) and after them (end)
    if case.get("end1"):
        fails += end_state_fails(case, case["end1"], case["circuits1"], "before the closing restarts", False)
        if not case["quiescent"]:
            fails.append(("C08_quiescent_balance",
                          "everything was resolved, but after restarting every link and the forwarder's "
                          "switch the network is not quiescent any more: %s" % case["why"]))
    if case["quiescent"]:
        fails += end_state_fails(case, case["end"], case["circuits"],
                                 "after the closing restarts" if case.get("end1") else "at quiescence", True)
    return fails


def end_state_fails(case, end_list, circuits, when, final):
    fails = []
    end = {e["name"]: e for e in end_list}
    ini = {e["name"]: e for e in case["init"]}
    for nm, e in end.items():
        if e["active"] != 0 or not e["clean"]:
            fails.append(("C08_quiescent_balance", "%s has dangling htlcs %s" % (nm, when)))
        if e["local"] + e["remote"] != ini[nm]["local"] + ini[nm]["remote"] or e["fee"] != ini[nm]["fee"]:
            fails.append(("C08_quiescent_balance", "%s: channel value not conserved %s" % (nm, when)))
    for a, b in (("alice", "bob1"), ("bob2", "carol")):
        if end[a]["local"] != end[b]["remote"] or end[a]["remote"] != end[b]["local"]:
            fails.append(("C08_quiescent_balance", "%s/%s disagree on balances %s" % (a, b, when)))
    for nm, (p_, o_) in zip(("alice", "bob", "carol"), circuits):
        if p_ != 0 or o_ != 0:
            fails.append(("C08_quiescent_balance",
                          "%s circuit map not empty %s (pending=%d open=%d)" % (nm, when, p_, o_)))
    ok = [p for p in case["pays"] if p["result"] == "settled"]
    fees = sum(p["htlc_amt"] - p["amt"] for p in ok)
    d_bob = (end["bob1"]["local"] + end["bob2"]["local"]) - (ini["bob1"]["local"] + ini["bob2"]["local"])
    if d_bob != fees:
        fails.append(("C08_quiescent_balance",
                      "forwarder total changed by %d msat %s, fees of succeeded forwards are %d msat"
                      % (d_bob, when, fees)))
    d_alice = end["alice"]["local"] - ini["alice"]["local"]
    d_carol = end["carol"]["local"] - ini["carol"]["local"]
    x_alice = sum(p["amt"] for p in ok if p["dir"] == "CA") - sum(p["htlc_amt"] for p in ok if p["dir"] == "AC")
    x_carol = sum(p["amt"] for p in ok if p["dir"] == "AC") - sum(p["htlc_amt"] for p in ok if p["dir"] == "CA")
    if d_alice != x_alice or d_carol != x_carol:
        fails.append(("C08_quiescent_balance",
                      "sender debits / receiver credits off %s: alice %d (expected %d), carol %d (expected %d)"
                      % (when, d_alice, x_alice, d_carol, x_carol)))
    if not final:
        return fails
    for p in case["pays"]:
        if p["result"] == "settled_wrong_preimage":
            fails.append(("C08_settle_needs_preimage", "payment %d settled with a foreign preimage" % p["idx"]))
        if p["result"] == "settled" and p["kind"] in FAIL_KINDS:
            fails.append(("C08_quiescent_balance", "payment %d (%s) must not succeed" % (p["idx"], p["kind"])))
        if p["result"] == "settled" and p["invoice"] != "Settled":
            fails.append(("C08_quiescent_balance",
                          "payment %d reported settled, invoice is %s" % (p["idx"], p["invoice"])))
        if p["result"] != "settled" and p["invoice"] == "Settled" and p["result"] != "timeout":
            fails.append(("C08_quiescent_balance",
                          "payment %d reported %s, but the receiver's invoice is Settled"
                          % (p["idx"], p["result"])))
        if p["result"] in ("failed", "send_err") and p.get("invoice_final") == "Settled":
            fails.append(("C08_quiescent_balance",
                          "payment %d was reported %s to the sender, but after the closing restarts the "
                          "receiver's invoice is Settled" % (p["idx"], p["result"])))
    return fails


def at_most_once(case):
    """Switch-level at-most-once clauses (C07 at the level of the running switch, C08 'nothing is
    forwarded twice'), evaluated on the forwarder's trace.  Returns messages.
    (1) an incoming HTLC is handed to an outgoing link (AddHTLC succeeded: 'n fwd') a second time
        only if the first outgoing add was LOST: its link (or the node) restarted before the link
        signed it;
    (2) never after its circuit was torn down with a response (FailCircuit / CloseCircuit succeeded
        and DeleteCircuits removed it);
    (3) at most one response per incoming HTLC is accepted (CloseCircuit / FailCircuit succeed)
        between two restarts of the switch."""
    ev = case["events"]
    out = []
    fw, resp_at, torn = {}, {}, {}
    for i, e in enumerate(ev):
        if e[0] == "n" and e[1] == "fwd":
            fw.setdefault((e[3], e[4]), []).append((i, e[5], e[6]))
        elif e[0] == "c" and e[1] == "close" and e[4] == "":
            resp_at.setdefault(tuple(e[3]), []).append(i)
        elif e[0] == "c" and e[1] == "fail" and e[3] == "":
            resp_at.setdefault(tuple(e[2]), []).append(i)
        elif e[0] == "c" and e[1] == "delete" and not e[3]:
            for k in e[2]:
                k = tuple(k)
                if k in resp_at and k not in torn:
                    torn[k] = i

    def lost(i1, och, i2):
        for j in range(i1 + 1, i2):
            x = ev[j]
            if x[0] == "g" and x[1] == och:
                return False
            if x[0] == "x" and (x[1] == "restart" or (x[1] == "linkrestart" and x[2] == och)):
                return True
        return False

    for k, lst in fw.items():
        for (i1, och, oid), (i2, och2, oid2) in zip(lst, lst[1:]):
            if not lost(i1, och, i2):
                out.append("incoming htlc %s handed to an outgoing channel twice: outgoing htlc %s (event %d) "
                           "and again %s (event %d), the first was not lost in a restart of its link"
                           % (list(k), [och, oid], i1, [och2, oid2], i2))
        if k in torn:
            late = [(i, och, oid) for (i, och, oid) in lst if i > torn[k]]
            if late:
                out.append("incoming htlc %s handed to outgoing channel %s (event %d) after its circuit was "
                           "torn down with a response (event %d)"
                           % (list(k), [late[0][1], late[0][2]], late[0][0], torn[k]))
    for i, e in enumerate(ev):
        if e[0] == "e" and e[1] == "spurious":
            out.append("a settle/fail was delivered to the incoming link of an htlc that is gone or already "
                       "answered (event %d): %s" % (i, e[2][:160]))
    for k, lst in resp_at.items():
        for i1, i2 in zip(lst, lst[1:]):
            if not any(ev[j][0] == "x" and ev[j][1] == "restart" for j in range(i1 + 1, i2)):
                out.append("two responses accepted for incoming htlc %s (events %d and %d) without a restart "
                           "of the switch in between" % (list(k), i1, i2))
    return out


def source_ref_changes(case):
    """Regression check for C08-F1 (fixed in /repo by f141912): link.go processRemoteAdds replayed a
    partially acked forwarding package with the position in the FILTERED list as package index.  At
    the forwarder the same incoming add must reach ForwardPackets with the same (height, index)
    source reference on every replay."""
    obs, src = [], {}
    for i, e in enumerate(case["events"]):
        if e[0] == "p" and e[2] == "add" and len(e) > 9:
            k, v = (e[3], e[4]), (e[8], e[9])
            if k in src and src[k] != v:
                obs.append({"at": i, "incoming_htlc": list(k), "source_ref_first": list(src[k]),
                            "source_ref_replay": list(v)})
            src.setdefault(k, v)
    return obs


def packet_lost_at_link_stop(case):
    """Candidate defect C08-F2 (switch.go ForwardPackets/routeAsync): the incoming link is stopped while
    it forwards a batch; the circuits are already committed (half-open) but routeAsync gives up on
    linkQuit, so the add packets never reach the switch; after the link restart the replayed adds
    are DROPPED as duplicates (half-open, not loaded from disk) and the HTLCs stay pending until the
    whole switch restarts.  Returns the circuits for which exactly this was observed."""
    ev = case["events"]
    out = []
    for i, e in enumerate(ev):
        if e[0] == "c" and e[1] == "commit":
            for k in e[2]:
                k = tuple(k)
                stop = next((j for j in range(i + 1, min(i + 40, len(ev)))
                             if ev[j][0] == "x" and ev[j][1] == "linkrestart" and ev[j][2] == k[0]), None)
                if stop is None:
                    continue
                answered = False
                dropped = False
                for x in ev[i + 1:]:
                    if x[0] == "n" and x[1] in ("fwd", "linkfail", "fwdfail", "settle") and tuple(x[3:5]) == k:
                        answered = True
                    if x[0] == "c" and x[1] == "fail" and tuple(x[2]) == k:
                        answered = True
                    if x[0] == "x" and x[1] == "restart":
                        answered = True        # a whole restart repairs it
                    if x[0] == "c" and x[1] == "commit" and list(k) in x[3]:
                        dropped = True
                if dropped and not answered:
                    out.append(list(k))
    return out


def partial_replays(case):
    """coverage: replays of a forwarding package in which an already acked add precedes an unacked one
    (the situation in which C08-F1 struck)"""
    n, first = 0, {}
    for e in case["events"]:
        if e[0] == "d":
            k = (e[1], e[2], e[3])
            if k not in first:
                first[k] = e[4]
            elif any(h in first[k] and first[k].index(h) != j for j, h in enumerate(e[4])):
                n += 1
    return n


def owed_sig_not_sent(case):
    """Candidate defect C08-F3 (lnwallet ProcessChanSyncMsg / link.go resolveFwdPkgs, toggleBatchTicker):
    the forwarder acked the peer's updates with a revoke_and_ack that WAS delivered, its link (or the
    node) went down before the commit_sig it owes in return was sent (processRemoteCommitSig returns
    on link quit between the two), and after the reconnect the channel sync finds both sides in sync:
    nothing is retransmitted and nothing ever triggers the owed signature (the batch ticker only looks
    at the forwarder's OWN pending updates), so the peer's updates stay uncommitted until the
    forwarder has an update of its own.  Returns the channels on which exactly this is in the trace."""
    ev = case["events"]
    out = []
    for ch, peer in ((1, "a"), (2, "c")):
        faults = [i for i, e in enumerate(ev)
                  if e[0] == "x" and (e[1] == "restart" or (e[1] == "linkrestart" and e[2] == ch))]
        closing = next((i for i, e in enumerate(ev) if e[0] == "x" and e[1] == "closing"), len(ev))
        for tf in faults:
            if tf > closing:
                break
            revs = [i for i in range(tf) if ev[i][0] == "s" and ev[i][1] == ch and ev[i][2] == "rev"]
            if not revs:
                continue
            i_rev = revs[-1]
            signed = any((ev[j][0] == "g" and ev[j][1] == ch) or
                         (ev[j][0] == "s" and ev[j][1] == ch and ev[j][2] == "sig")
                         for j in range(i_rev + 1, tf))
            delivered = any(ev[j][0] == "w" and ev[j][1] == peer and ev[j][2] == ch and ev[j][3] == "rev"
                            and not ev[j][7] for j in range(i_rev + 1, tf))
            nxt = next((i for i in faults if i > tf), len(ev))
            sig_after = any((ev[j][0] == "s" and ev[j][1] == ch and ev[j][2] == "sig")
                            for j in range(tf + 1, nxt))
            reest = any(ev[j][0] == "s" and ev[j][1] == ch and ev[j][2] == "reest" for j in range(tf + 1, nxt))
            if delivered and not signed and reest and not sig_after:
                out.append(ch)
                break
    return out


def funds_missing(case):
    """Non-quiescent end state in which value has demonstrably vanished."""
    end = {e["name"]: e for e in case["end"]}
    ini = {e["name"]: e for e in case["init"]}
    for a, b in (("alice", "bob1"), ("bob2", "carol")):
        tot0 = ini[a]["local"] + ini[a]["remote"]
        if end[a]["active"] == 0 and end[b]["active"] == 0 and end[a]["clean"] and end[b]["clean"] \
                and end[a]["local"] + end[a]["remote"] != tot0:
            return True
    return False


def slim(case, around=None):
    c = dict(case)
    if around is not None:
        c["events_window"] = case["events"][max(0, around - 25):around + 5]
    return c


def silent_ms(case):
    m = re.search(r"silent_ms=(\d+)", case.get("why") or "")
    return int(m.group(1)) if m else 0


def sp_variant(case):
    """'' for ordinary batches / directed scenarios / baselines, else flap|restart|restartflap|db"""
    return ((case.get("extra") or {}).get("sp") or {}).get("variant", "")


def sp_coverage(rows):
    sp = [c for c in rows if (case_sp(c) is not None)]
    base = [c for c in sp if not sp_variant(c)]
    runs = [c for c in sp if sp_variant(c)]
    return {
        "base_scenarios": {case_sp(c)["scenario"]: {"hook_hits": len(c["extra"].get("hook_hits", [])),
                                                    "transactions": c["extra"].get("transactions")}
                           for c in base},
        "stop_point_universe": sum(3 * len(c["extra"].get("hook_hits", [])) + (c["extra"].get("transactions") or 0)
                                   for c in base),
        "stop_points_run": len(runs),
        "fired": sum(1 for c in runs if c["extra"].get("fired")),
        "by_variant": {v: sum(1 for c in runs if sp_variant(c) == v)
                       for v in ("flap", "restart", "restartflap", "db")},
        "by_hook": {h: sum(1 for c in runs if (c["extra"].get("baseline_hook") or "").split(":")[-1]
                           .split("_")[0] == h)
                    for h in ("dequeue", "decode", "commit", "fwd", "nfwd", "signed", "send")},
    }


def case_sp(case):
    return (case.get("extra") or {}).get("sp")


def run_switch_stage(ctx):
    """Extra stage of C07 ("the switch forwards each HTLC at most once and relays at most one
    response") at the level of the RUNNING switch: the three-hop harness (directed disconnect /
    bounce / replay scenarios + a few random fault batches, each closed by a restart of every link
    and of the forwarder's switch) is run and ONLY the at-most-once clauses are evaluated.
    Coverage goes to ctx.cov["switch_stage"]; violations are reported on ctx (i.e. under C07)."""
    import shutil
    puid = ctx.uid("_sw")
    env = {"VERIF_CASES": 12 if ctx.thorough else 3, "VERIF_C08_SP": 60 if ctx.thorough else 6}
    rc, trace, out = run_harness(puid, "htlcswitch", HARNESS, "^TestVerifThreeHop$", env=env, timeout=2400)
    rows = read_jsonl(trace)
    shutil.rmtree(os.path.join(os.path.dirname(trace), "overlay", puid), ignore_errors=True)
    if rc != 0 or not rows:
        ctx.violation("harness_failed", "TestVerifThreeHop (switch stage)", {"log": out[-4000:]},
                      signature="switch-stage harness", failing_input=False)
        ctx.cov["switch_stage"] = {"evaluations": 0}
        return
    try:
        os.remove(trace)
    except OSError:
        pass
    nbad = 0
    for c in rows:
        msgs = at_most_once(c)
        if msgs:
            nbad += 1
            if nbad <= 2:
                ctx.violation("impl_violates_predicate", "C07_add_once / C07_one_response_per_run (switch stage)",
                              {"case": slim(c), "fails": msgs[:10]},
                              signature="switch-stage at-most-once: %s" % msgs[0][:70])
    fw = sum(1 for c in rows for e in c["events"] if e[0] == "n" and e[1] == "fwd")
    ctx.cov["switch_stage"] = {
        "what": "three-hop fixture (real Switch, circuit map, links, channels) with injected link restarts, "
                "switch restarts, message loss and the directed scenarios (disconnect in the middle of a "
                "ForwardPackets batch, forward bounced by the outgoing link, replay of a partially acked "
                "package); every batch closed by a restart of every link and of the forwarder's switch; "
                "predicate: hand-over of an incoming HTLC to an outgoing link at most once unless the first "
                "add was lost unsigned, never after the circuit was torn down with a response, at most one "
                "response accepted per incoming HTLC between switch restarts",
        "evaluations": len(rows),
        "scenarios": {c["fault"]: sum(1 for x in rows if x["fault"] == c["fault"]) for c in rows},
        "incoming_htlcs_forwarded": len({(c["case"], e[3], e[4]) for c in rows for e in c["events"]
                                         if e[0] == "n" and e[1] == "fwd"}),
        "hand_overs_to_an_outgoing_link": fw,
        "replayed_adds_after_restarts": sum(1 for c in rows for e in c["events"]
                                            if e[0] == "p" and e[2] == "add" and e[7]),
        "forwards_bounced_by_the_outgoing_link": sum(1 for c in rows for e in c["events"]
                                                     if e[0] == "c" and e[1] == "fail" and e[3] == ""),
        "responses_accepted": sum(1 for c in rows for e in c["events"]
                                  if e[0] == "c" and ((e[1] == "close" and e[4] == "") or
                                                      (e[1] == "fail" and e[3] == ""))),
        "restarts": sum(1 for c in rows for e in c["events"]
                        if e[0] == "x" and e[1] in ("restart", "linkrestart")),
        "predicate_failures": nbad,
        "stop_points": sp_coverage(rows),
    }


def run(ctx):
    pr = ctx.proof_stage(MODULE, THEOREMS, TARGETS, extra_trusted=[
        "payment hash function H is a Section variable: theorems hold for any H; execution "
        "instantiates SHA-256 (Common/Sha256.v)",
        "goroutine scheduling, onion processing, mailbox timers, peer transport and the wire-level "
        "commitment dance are NOT modelled: they are exercised by the three-hop harness only (partial)",
        "model events are derived from in-process observation points at the forwarder: HtlcNotifier, "
        "CircuitMap proxy, ForwardPackets wrapper, Peer.SendMessage wrapper, NotifyContractUpdate "
        "(= commitment signed), DecodeHopIterators wrapper, mockServer interceptors",
        "fault injection is done by the harness around the real code: Switch.RemoveLink / AddLink of fresh "
        "channelLinks over channel states reloaded from disk, a new Switch on the same database, an "
        "epoch-tagging message filter; restarts are graceful stops, not crashes inside a handler"])
    env = {}
    # -race is off by default: the lnd test fixture shares one mockObfuscator between all links
    # (mock.go EncryptFirstHop writes o.failure), which the detector flags on any two concurrent fails.
    race = bool(os.environ.get("VERIF_C08_RACE"))
    # per-process names: concurrent `./check C08` runs must not share the trace / overlay / case files
    puid = ctx.uid()
    rc, trace, out = run_harness(puid, "htlcswitch", HARNESS, "^TestVerifThreeHop$",
                                 env=env, timeout=2400, race=race)
    rows = read_jsonl(trace)
    import shutil
    shutil.rmtree(os.path.join(os.path.dirname(trace), "overlay", puid), ignore_errors=True)
    if os.environ.get("VERIF_C08_KEEP"):     # debugging: the lib removes a clean run's scratch files
        shutil.copyfile(trace, os.environ["VERIF_C08_KEEP"])
    if rc != 0 or not rows:
        ctx.violation("harness_failed", "TestVerifThreeHop", {"log": out[-6000:]},
                      signature="harness", failing_input=False)
        return
    nfail = 0
    for c in rows:
        stuck = (not c["quiescent"]) or any(p["result"] == "timeout" for p in c["pays"])
        f = predicate(c)
        linkfail = [e[1] for e in c["events"] if e[0] == "f"]
        if f:
            nfail += 1
            if nfail <= 3:
                ctx.violation("impl_violates_predicate", f[0][0],
                              {"case": slim(c), "fails": f[:10], "link_failures": linkfail},
                              signature="threehop %s" % f[0][1][:60])
        elif stuck:
            lost = packet_lost_at_link_stop(c)
            owed = owed_sig_not_sent(c) if not c["quiescent"] else []
            if owed and (silent_ms(c) >= 2500 or not sp_variant(c)):
                ctx.violation("impl_violates_predicate", "C08_quiescent_balance",
                              {"case": slim(c), "stop_point": case_sp(c), "channels": owed, "fails": [
                                  "htlcs left dangling (%s): on channel %s the forwarder's revoke_and_ack was "
                                  "delivered, its link went down before the commit_sig it owes in return, and after "
                                  "the reconnect that signature is never sent" % (c["why"], owed)]},
                              signature="threehop owed-commit-sig-not-sent-after-reconnect")
            elif case_sp(c) is not None and not c["quiescent"] and silent_ms(c) >= 2500:
                # a tiny deterministic scenario with ONE fault and generous timeouts: not resolving is
                # the "nothing is left dangling" clause itself
                ctx.violation("impl_violates_predicate", "C08_quiescent_balance",
                              {"case": slim(c), "stop_point": case_sp(c), "link_failures": linkfail,
                               "fails": ["htlcs / circuits left dangling after stop point %s (%s): %s; payments %s"
                                         % (c["fault"], c["extra"].get("baseline_hook") or case_sp(c).get("key") or "transaction",
                                            c["why"], [p["result"] for p in c["pays"]])]},
                              signature="threehop stop-point dangling %s" % c["fault"])
            elif funds_missing(c):
                ctx.violation("impl_violates_predicate", "C08_quiescent_balance",
                              {"case": slim(c), "fails": ["value vanished; network not quiescent: " + c["why"]]},
                              signature="threehop funds missing")
            elif linkfail:
                ctx.violation("impl_violates_predicate", "C08_quiescent_balance",
                              {"case": slim(c), "fails": ["htlcs left dangling (%s): a link that was not being "
                                                          "stopped failed: %s" % (c["why"], linkfail[:3])]},
                              signature="threehop link failed: %s" % linkfail[0][:80])
            elif lost:
                ctx.violation("impl_violates_predicate", "C08_quiescent_balance",
                              {"case": slim(c), "circuits": lost, "fails": [
                                  "htlcs left dangling: the add packets of circuits %s were abandoned when their "
                                  "incoming link stopped (committed half-open, never routed), the replay after the "
                                  "link restart was dropped as a duplicate" % lost]},
                              signature="threehop fwd-packet-lost-at-link-stop")
            else:
                ctx.violation("harness_failed", "TestVerifThreeHop: no quiescence (%s)" % c["why"],
                              {"case": slim(c), "link_failures": linkfail}, signature="threehop harness",
                              failing_input=False)
    # correspondence: the model must accept the trace and agree on the end state
    # Rows of DATABASE stop points are judged by the predicates only: the model's steps are whole
    # handlers (e.g. signature + circuit deletion + mailbox ack are one step), a stop between two
    # transactions of one handler is outside the model.
    all_rows = rows
    rows = [c for c in all_rows if sp_variant(c) != "db"]
    terms, evmaps, probs_all = [], [], []
    for c in rows:
        evs, probs = to_events(c)
        evmaps.append(evs)
        terms.append(case_term(c, evs))
        if probs:
            probs_all.append((c["case"], probs))
    for cn, probs in probs_all[:2]:
        ctx.violation("correspondence_mismatch", "Forward trace translation",
                      {"case": cn, "problems": probs[:10]}, signature="threehop untranslatable",
                      failing_input=True)
    ok, bad, logs = coq_mismatches(puid, IMPORTS, terms, shard=max(1, len(terms) // NCPU + 1))
    import glob
    for fpath in glob.glob(os.path.join(os.path.dirname(trace), "coq_eval", "cases_%s_*" % puid)):
        try:
            os.remove(fpath)
        except OSError:
            pass
    if not ok:
        ctx.violation("correspondence_mismatch", "Forward.Exec (model evaluation failed)",
                      {"logs": logs}, signature="model-eval", failing_input=False)
    for ci, idxs in bad[:3]:
        c = rows[ci]
        evs = evmaps[ci]
        first = idxs[0]
        if first < len(evs):
            what = {"rejected_model_event": evs[first][0], "impl_event_index": evs[first][1],
                    "impl_event": c["events"][evs[first][1]],
                    "model_events_before": [t for t, _ in evs[max(0, first - 12):first]]}
            around = evs[first][1]
        else:
            what = {"end_state_mismatch": ["not quiescent in model", "balances", "expected balances",
                                           "NumPending", "NumOpen"][min(first - len(evs), 4)]}
            around = None
        ctx.violation("correspondence_mismatch", "Forward.Exec.check_case",
                      {"case": slim(c, around), "what": what},
                      signature="threehop recogniser", failing_input=True)
    if not pr["ok"] and not ctx.violations:
        ctx.violation("proof_broken", ", ".join(pr["broken"]) or "Forward build",
                      {"log": pr["log"][-4000:]}, signature="proof", failing_input=False)
    kinds, results, evk, mev = {}, {}, {}, {}
    npay = 0
    sp_rows = [c for c in all_rows if sp_variant(c)]
    for c, evs in zip(rows, evmaps):
        for p in c["pays"]:
            npay += 1
            kinds[p["kind"]] = kinds.get(p["kind"], 0) + 1
            key = p["kind"] + ":" + p["result"]
            results[key] = results.get(key, 0) + 1
        for e in c["events"]:
            k = e[0] + ":" + str(e[1] if e[0] in ("n", "c", "x") else
                                 (e[3] if e[0] == "w" else (e[2] if e[0] in ("s", "p") else "")))
            evk[k] = evk.get(k, 0) + 1
        for t, _ in evs:
            k = t.split("(")[2].split()[0] if t.startswith("ECirc") and t.count("(") > 1 else \
                (t.split()[-1] if t.startswith("ECirc") else t.split()[0])
            mev[k] = mev.get(k, 0) + 1
    ctx.cov.update({
        "evaluations": len(all_rows),
        "distinct_nontrivial": distinct_count(
            [c for c in rows if len(c["pays"]) >= 2 or sp_variant(c)],
            lambda c: [t for t, _ in to_events(c)[0]]),
        "rule": "one evaluation = one batch of 3-10 (thorough: 3-24) concurrent payments both directions on a "
                "fresh three-hop network with the faults of its mode (flap, drop+flap, restart, drop+restart, "
                "2-3 faults, delays, crossflap) or the directed restart scenario; non-trivial = at least 2 "
                "payments; distinct by the full observed model-event order",
        "traces_validated_against_impl": len(rows),
        "traces_judged_by_the_predicates_only_db_stop_points": len(all_rows) - len(rows),
        "payments": npay, "payment_kinds": kinds, "kind_results": results,
        "impl_event_kinds": evk, "model_event_kinds": mev,
        "model_events_total": sum(len(e) for e in evmaps),
        "faults": {c["fault"]: sum(1 for x in rows if x["fault"] == c["fault"]) for c in rows},
        "quiescent_cases": sum(1 for c in all_rows if c["quiescent"]),
        "synthesised_model_events": dict(SYNTH),
        "stop_points": sp_coverage(all_rows),
        "partially_acked_package_replays": sum(partial_replays(c) for c in rows),
        "messages_lost_or_stale": sum(c.get("dropped", 0) for c in rows),
        "forwards_bounced_by_the_outgoing_link": sum(1 for c in rows for e in c["events"]
                                                     if e[0] == "c" and e[1] == "fail" and e[3] == ""),
        "batches_closed_by_restarting_everything": sum(1 for c in rows if c.get("end1")),
        "adds_replayed_after_restarts": sum(1 for c in rows for e in c["events"]
                                            if e[0] == "p" and e[2] == "add" and e[7]),
        "faults_injected": sum(1 for c in rows for f in (c.get("faults") or []) if f["fired"] != "none"),
        "fault_triggers": {k: sum(1 for c in rows for f in (c.get("faults") or []) if f["fired"] == k)
                           for k in ("trigger", "timer", "none")},
        "samples": [[t for t, _ in evmaps[0][:12]]],
        "correspondence_mismatches": len(bad),
        "race_detector": race,
    })
    ctx.assumptions += [
        "PARTIAL: the theorems cover all orders of the MODELLED events; real goroutine schedules are only "
        "sampled by the harness",
        "restarts (whole node: ERestart, single link: ELinkRestart) are graceful stops; a crash between two "
        "database transactions of one handler is neither modelled nor injected",
        "signature + circuit deletion + mailbox ack are one atomic model step (lnd: CommitDiff is atomic, "
        "DeleteCircuits follows in the same goroutine)"]
    if ctx.thorough and pr["ok"]:
        ctx.coqchk(["LV.Forward.Props"])
