"""C20 — only authentic, fresh gossip changes the channel graph."""
from lib.verif import *

THEOREMS = [
    "C20_chan_ann_authentic", "C20_update_authentic", "C20_node_authentic",
    "C20_unchanged_not_relayed", "C20_premature_replay_revalidates",
    "C20_nodes_have_channels",
]
MODULE = "LV.Gossip.Props"
TARGETS = ["theories/Gossip/Props.vo", "theories/Gossip/Exec.vo", "theories/Gossip/Examples.vo"]
HFILES = ["discovery/verif_gossip_test.go", "discovery/verif_gossip_store_kv_test.go",
          "discovery/verif_gossip_store_sql_test.go"]
WARM = [{"pkg": "discovery", "files": HFILES}]
IMPORTS = ("From Coq Require Import List NArith Bool.\nImport ListNotations.\n"
           "From LV Require Import Gossip.Model Gossip.Exec.\n")

ERR = {"own": "EOwn", "rejected": "ERejected", "chain": "EChain", "alias": "EAlias",
       "closed": "EClosed", "ca_invalid": "ECaInvalid", "nofund": "ENoFund",
       "badout": "EBadOut", "spent": "ESpent", "zerots": "EZeroTs", "skew": "ESkew",
       "zombie_key": "EZombieKey", "zombie_sig": "EZombieSig", "cu_invalid": "ECuInvalid",
       "na_invalid": "ENaInvalid", "outdated": "EOutdated", "ignored": "EIgnored"}


def n(x):
    return "%d%%N" % int(x)


def verdict_term(v):
    if v == "ok":
        return "VOk"
    if v in ("pending", "timeout"):
        return "VPending"
    cls = v.split(":", 2)[1]
    return "(VErr %s)" % ERR.get(cls, "EOther")


def msg_term(m):
    if m["t"] == "ca":
        return ("(MCA (mkCA %s %s %s %s %s %s %s %s %s %s %s %s))" % (
            n(m["chain"]), n(m["scid"]), n(m["n1"]), n(m["n2"]), n(m["b1"]), n(m["b2"]),
            n(m["ns1"]), n(m["ns2"]), n(m["bs1"]), n(m["bs2"]), n(m["dg"]), cbool(m["tap"])))
    if m["t"] == "cu":
        return ("(MCU (mkCU %s %s %s %s %s %s %s %s %s %s %s %s %s))" % (
            n(m["chain"]), n(m["scid"]), n(m["ts"]), n(m["mf"]), n(m["cf"]), n(m["tld"]),
            n(m["min"]), n(m["max"]), n(m["base"]), n(m["rate"]), n(m["extra"]),
            n(m["sig"]), n(m["dg"])))
    return "(MNA (mkNA %s %s %s %s %s))" % (n(m["node"]), n(m["ts"]), n(m["sig"]), n(m["dg"]),
                                            cbool(m["fields_ok"]))


def pol_term(p):
    if p is None:
        return "None"
    return "(Some (mkPol %s))" % " ".join(n(x) for x in p)


def snap_term(g):
    es = ["(%s, mkEdge %s %s %s %s %s %s %s %s)" % (
        n(c[0]), n(c[1]), n(c[2]), n(c[3]), n(c[4]), n(c[5]), cbool(c[6]),
        pol_term(c[7]), pol_term(c[8])) for c in g["chans"]]
    ns = ["(%s, mkNode %s %s)" % (n(x[0]), n(x[1]), n(x[2])) for x in g["nodes"]]
    return "(mkSnap %s %s %s %s)" % (clist(es), clist(ns), clist([n(z) for z in g["zombies"]]),
                                     clist([n(z) for z in g["closed"]]))


def fund_term(f):
    if f["k"] == "notfound":
        return "FNotFound"
    if f["k"] == "rpcerr":
        return "FRpcErr"
    sc = "None" if f.get("script") is None else "(Some %s)" % n(f["script"])
    return "(FTx %s %s %s)" % (sc, n(f.get("value", 0)), ["UUnspent", "USpent", "UErr"][f.get("utxo", 2)])


def fill_graphs(case):
    """Attach the full graph after every step ('G')."""
    g = {"chans": [], "nodes": [[case["own"], 0, 0]], "zombies": [], "closed": []}
    for s in case["steps"]:
        if "g" in s:
            g = s["g"]
        s["G"] = g


def case_term(case):
    fill_graphs(case)
    cids = {}

    def cid(h):
        if h not in cids:
            cids[h] = len(cids) + 1
        return cids[h]

    ver, fund, script = set(), {}, {}
    steps = []
    for s in case["steps"]:
        m, orc = s["m"], s["orc"]
        for t in orc.get("ver") or []:
            ver.add(tuple(t))
        if m["t"] == "ca":
            fund[m["scid"]] = fund_term(orc["fund"])
            script[(m["b1"], m["b2"], bool(m["tap"]))] = orc["script"]
        resolved = ["(%s, %s)" % (n(r[0]), verdict_term(r[1])) for r in (s["resolved"] or [])]
        bans = ["(%s, %s)" % (n(p), n(b)) for p, b in zip(case["peers"], s["ban"])]
        # the same key may be used by two peers of the case: keep one entry
        seen, bans2 = set(), []
        for p, b in zip(case["peers"], bans):
            if p not in seen:
                seen.add(p)
                bans2.append(b)
        steps.append("mkStep %s %s %s %s %s %s %s %s %s" % (
            cbool(s.get("restart")), n(s["now"]), n(s["peer"]), n(cid(m["cid"])), msg_term(m), verdict_term(s["res"]),
            clist(resolved), snap_term(s["G"]), clist(bans2)))
    bc = sorted((cid(h), c) for h, c in case["bcast"].items())
    cfg = "(mkCfg %s 1%%N %s false %s %s %s)" % (n(case["own"]), n(case["best"]), n(case["rebroadcast"]),
                                             n(case["prune"]), n(case["burst"]))
    return "mkCase %s %s\n %s\n %s\n %s\n %s\n %s" % (
        cfg, n(case["alias_start"]),
        clist(["(%s, %s, %s)" % tuple(n(x) for x in t) for t in sorted(ver)]),
        clist(["(%s, %s)" % (n(k), v) for k, v in sorted(fund.items())]),
        clist(["(%s, %s, %s, %s)" % (n(k[0]), n(k[1]), cbool(k[2]),
                                      "None" if v is None else "(Some %s)" % n(v))
               for k, v in sorted(script.items())]),
        "[" + ";\n  ".join(steps) + "]",
        clist(["(%s, %s)" % (n(t[0]), n(t[1])) for t in bc]))


def upd_policy(u):
    return [u["ts"], u["mf"], u["cf"], u["tld"], u["min"], u["max"], u["base"], u["rate"],
            u["extra"], u["sig"]]


def predicate(case):
    """Property predicate on the IMPLEMENTATION's trace alone (independent of
    the Coq model): every graph change is explained by an authentic, fresh
    message per the harness' own re-verification; rejections leave the graph
    unchanged; nothing reaches Broadcast more often than it changed the graph."""
    fill_graphs(case)
    fails = []
    ver = set()
    for s in case["steps"]:
        for t in s["orc"].get("ver") or []:
            ver.add(tuple(t))
    own = case["own"]
    gp = {"chans": [], "nodes": [[own, 0, 0]], "zombies": [], "closed": []}
    pend = {}          # scid -> [update messages waiting for the channel]
    effect = {}        # content id -> number of graph changes it caused
    for s in case["steps"]:
        i, m, orc, g = s["i"], s["m"], s["orc"], s["G"]
        if s.get("restart"):
            pend = {}      # parked updates died with the old gossiper
        cp = {c[0]: c for c in gp["chans"]}
        cn = {c[0]: c for c in g["chans"]}
        np_ = {x[0]: x for x in gp["nodes"]}
        nn = {x[0]: x for x in g["nodes"]}
        changed = False
        new_chan = None
        for scid in cp:
            if scid not in cn:
                fails.append("step %d: channel %d disappeared" % (i, scid))
        for scid, c in cn.items():
            if scid not in cp:
                changed = True
                new_chan = c
                f = orc.get("fund") or {}
                ok = (m["t"] == "ca" and m["scid"] == scid and
                      [m["n1"], m["n2"], m["b1"], m["b2"]] == c[1:5] and
                      (m["b1"], m["dg"], m["bs1"]) in ver and (m["b2"], m["dg"], m["bs2"]) in ver and
                      (m["n1"], m["dg"], m["ns1"]) in ver and (m["n2"], m["dg"], m["ns2"]) in ver and
                      m["chain"] == 1 and own not in (m["n1"], m["n2"]))
                if not ok:
                    fails.append("step %d: channel %d entered the graph without four valid "
                                 "signatures over the announcement" % (i, scid))
                elif not (f.get("k") == "tx" and f.get("script") is not None and
                          f.get("script") == orc.get("script") and f.get("utxo") == 0 and
                          f.get("value") == c[5]):
                    fails.append("step %d: channel %d entered the graph but its funding output "
                                 "is %s (expected script %s)" % (i, scid, f, orc.get("script")))
                else:
                    effect[m["cid"]] = effect.get(m["cid"], 0) + 1
                oldp = [None, None]
            else:
                if c[:7] != cp[scid][:7]:
                    fails.append("step %d: channel %d static fields changed" % (i, scid))
                oldp = cp[scid][7:9]
            for d in (0, 1):
                newp = c[7 + d]
                if newp == oldp[d]:
                    continue
                changed = True
                cands = []
                if m["t"] == "cu":
                    cands = [m]
                elif m["t"] == "ca" and m["scid"] == scid:
                    cands = pend.get(scid, [])
                hit = None
                for u in cands:
                    if u["scid"] == scid and (u["cf"] & 1) == d and upd_policy(u) == newp:
                        hit = u
                capm = c[5] * 1000
                if hit is None:
                    fails.append("step %d: policy %d/%d changed to %s, not the content of the "
                                 "message(s) at hand" % (i, scid, d, newp))
                elif not ((c[1 + d], hit["dg"], hit["sig"]) in ver and hit["ts"] > 0 and
                          (oldp[d] is None or oldp[d][0] < hit["ts"]) and hit["chain"] == 1 and
                          (hit["mf"] & 1) and hit["max"] > 0 and hit["max"] >= hit["min"] and
                          (capm == 0 or hit["max"] <= capm)):
                    if oldp[d] is not None and oldp[d][0] >= hit["ts"]:
                        why = "policy replaced by a not-strictly-newer update"
                    elif capm != 0 and hit["max"] > capm:
                        why = ("updated with inconsistent fields: htlc_maximum_msat %d exceeds the "
                               "capacity %d msat" % (hit["max"], capm))
                    elif not (hit["mf"] & 1) or hit["max"] == 0 or hit["max"] < hit["min"]:
                        why = "updated with inconsistent fields (max-htlc flag / max / min)"
                    else:
                        why = "updated by an update that is not authentic"
                    fails.append("step %d: policy %d/%d %s: %s (old %s, cap %d)" %
                                 (i, scid, d, why, hit, oldp[d], c[5]))
                else:
                    effect[hit["cid"]] = effect.get(hit["cid"], 0) + 1
        for k in np_:
            if k not in nn:
                fails.append("step %d: node %d disappeared" % (i, k))
        for k, x in nn.items():
            if k not in np_:
                changed = True
                if not (x[1:] == [0, 0] and new_chan is not None and k in new_chan[1:3]):
                    fails.append("step %d: node %d appeared without a channel announcement" % (i, k))
            elif x != np_[k]:
                changed = True
                has_chan = any(k in c[1:3] for c in gp["chans"]) or k == own
                ok = (m["t"] == "na" and m["node"] == k and (k, m["dg"], m["sig"]) in ver and
                      m["ts"] > np_[k][1] and x[1:] == [m["ts"], m["sig"]] and has_chan and
                      m["fields_ok"])
                if not ok:
                    fails.append("step %d: node %d changed %s -> %s by a message that is not an "
                                 "authentic newer announcement of a node with a channel" %
                                 (i, k, np_[k], x))
                else:
                    effect[m["cid"]] = effect.get(m["cid"], 0) + 1
        if changed and s["res"].startswith("err"):
            fails.append("step %d: graph changed although the message was rejected (%s)" %
                         (i, s["res"]))
        if s["res"] == "pending":
            pend.setdefault(m["scid"], []).append(m)
        if s["res"] == "timeout":
            fails.append("step %d: no answer from the gossiper" % i)
        for r in s["resolved"] or []:
            if r[1] == "timeout":
                fails.append("step %d: premature update of step %d never answered" % (i, r[0]))
        if m["t"] == "ca" and s["resolved"]:
            pend.pop(m["scid"], None)
        gp = g
    known = {s["m"]["cid"] for s in case["steps"]}
    for h, cnt in case["bcast"].items():
        if h not in known:
            fails.append("a message that was never submitted was broadcast (%s)" % h)
        elif cnt > effect.get(h, 0):
            fails.append("message %s was relayed %d time(s) but changed the graph %d time(s)" %
                         (h, cnt, effect.get(h, 0)))
    return fails


def run(ctx):
    pr = ctx.proof_stage(MODULE, THEOREMS, TARGETS, extra_trusted=[
        "signature verification (key parses, signature parses, ECDSA verify over the double-SHA256 "
        "of DataToSign), the chain backend answers and the 2-of-2 funding-script constructor are "
        "Section variables: the theorems are implications over them for ANY such oracles; the "
        "correspondence run instantiates them with tables recomputed by the harness with btcec / "
        "input.GenFundingPkScript, independently of the gossiper",
        "funding clause proved for AssumeChannelValid=false (alias SCIDs are rejected for remote "
        "announcements before any graph access)"])
    # Both graph-store backends on every run: bbolt with the full case count, sqlite with a
    # smaller batch (its own seed stream), concurrently.
    import os as _os
    from concurrent.futures import ThreadPoolExecutor
    ncases_env = _os.environ.get("VERIF_CASES")
    jobs = [("bbolt", ctx.uid(), "verif", {}),
            ("sqlite", ctx.uid("sql"), "verif test_db_sqlite",
             {} if ncases_env else {"VERIF_CASES": "600" if ctx.thorough else "45"})]
    if ctx.replay:
        # --replay: re-run exactly the recorded case (same seed, case index, backend)
        import json as _json
        rp = _json.load(open(ctx.replay))
        det = rp.get("detail") or {}
        if "case" in det:
            renv = {"VERIF_SEED": str(rp.get("seed", ctx.seed)), "VERIF_CASE_ONLY": str(det["case"]),
                    "VERIF_TIER": rp.get("tier", ctx.tier), "VERIF_CASES": str(int(det["case"]) + 1)}
            jobs = [(bk, uid, tg, renv) for bk, uid, tg, _ in jobs if bk == det.get("backend", "bbolt")]

    def one(job):
        bk, uid, tg, env = job
        rc, trace, out = run_harness(uid, "discovery", HFILES, "^TestVerifGossip$", timeout=2400,
                                     tags=tg, env=env, extra=["-parallel", "5"])
        return bk, rc, sorted(read_jsonl(trace), key=lambda r: r["case"]), out

    rows = []
    with ThreadPoolExecutor(max_workers=2) as ex:
        for bk, rc, rws, out in ex.map(one, jobs):
            if rc != 0 or not rws:
                ctx.violation("harness_failed", "TestVerifGossip (%s)" % bk, {"log": out[-6000:]},
                              signature="harness", failing_input=False)
                return
            rows += rws
    nfail = 0
    pred_bad = set()
    for c in rows:
        f = predicate(c)
        if f:
            pred_bad.add((c["backend"], c["case"]))
            nfail += 1
            if nfail <= 3:
                ctx.violation("impl_violates_predicate", "C20 authenticity predicate",
                              {"seed": ctx.seed, "case": c["case"], "backend": c["backend"],
                               "fails": f[:6],
                               "steps": [{k: s[k] for k in ("i", "tag", "m", "orc", "res", "resolved", "G")}
                                         for s in c["steps"]], "bcast": c["bcast"]},
                              signature="gossip predicate: %s" % f[0])
    terms = [case_term(c) for c in rows]
    ok, bad, logs = coq_mismatches(ctx.uid(), IMPORTS, terms, shard=max(4, len(terms) // NCPU + 1))
    if not ok:
        ctx.violation("correspondence_mismatch", "Gossip.Exec (model evaluation failed)",
                      {"logs": logs}, signature="model-eval", failing_input=False)
    for ci, idx in bad[:3]:
        c = rows[ci]
        first = [s for s in c["steps"] if s["i"] in idx[:3]]
        ctx.violation("correspondence_mismatch", "Gossip.Exec.check_case",
                      {"seed": ctx.seed, "case": c["case"], "backend": c["backend"], "kind": c["kind"],
                       "disagreeing_steps": idx,
                       "steps": [{k: s[k] for k in ("i", "tag", "m", "orc", "res", "resolved", "ban", "G")}
                                 for s in first],
                       "bcast": c["bcast"],
                       "replay": "./check C20 --replay <this file>"},
                      signature="gossip mismatch",
                      failing_input=((c["backend"], c["case"]) in pred_bad))
    if not pr["ok"] and not ctx.violations:
        ctx.violation("proof_broken", ", ".join(pr["broken"]) or "Gossip build",
                      {"log": pr["log"][-4000:]}, signature="proof", failing_input=False)
    tags_h, verd, types, kinds = {}, {}, {}, {}
    nsteps = changed = relayed = pending = restarts = 0
    for c in rows:
        kinds[c["kind"]] = kinds.get(c["kind"], 0) + 1
        relayed += sum(c["bcast"].values())
        for s in c["steps"]:
            nsteps += 1
            restarts += 1 if s.get("restart") else 0
            t = s["tag"].split("_resigned")[0]
            tags_h[t] = tags_h.get(t, 0) + 1
            verd[s["res"]] = verd.get(s["res"], 0) + 1
            types[s["m"]["t"]] = types.get(s["m"]["t"], 0) + 1
            changed += 1 if "g" in s else 0
            pending += len(s["resolved"] or [])
    ctx.cov.update({
        "evaluations": nsteps,
        "cases": len(rows),
        "distinct_nontrivial": distinct_count(
            [c for c in rows if len(c["steps"]) > 3],
            lambda c: [(s["tag"], s["res"], s["m"]["t"], s["m"].get("ts"), "g" in s) for s in c["steps"]]),
        "rule": "one case = fresh gossiper + graph.Builder + graph DB, 8-22 remote messages "
                "(valid, duplicate, stale/equal/+1 timestamps, field corruptions with and without "
                "re-signing, single-bit wire corruptions, wrong-direction/stranger signers, "
                "funding: spent/err/wrong script/missing block/bad index); non-trivial = more than "
                "3 messages; distinct by (generator tag, verdict, type, timestamp, graph-changed) list",
        "traces_validated_against_impl": len(rows),
        "case_kinds": kinds, "message_types": types, "verdicts": verd,
        "generator_tags": dict(sorted(tags_h.items())),
        "steps_changing_graph_or_indexes": changed,
        "messages_broadcast": relayed,
        "premature_updates_replayed": pending,
        "restarts_on_cold_store": restarts,
        "predicate_failures": nfail,
        "correspondence_mismatches": len(bad),
        "graph_backends": {b: sum(1 for r in rows if r.get("backend") == b)
                           for b in ("bbolt", "sqlite")},
        "samples": [[(s["tag"], s["res"]) for s in rows[0]["steps"][:8]]],
    })
    ctx.assumptions += [
        "remote (network) announcements only; local announcements, AnnounceSignatures and gossip "
        "v2 messages (not dispatched by processNetworkAnnouncement in this tree) are out of scope",
        "goroutine structure (validation barrier, batching) is exercised, not modelled: the harness "
        "submits one message at a time and waits for quiescence",
        "block-height-premature messages are answered nil and parked; their later re-injection "
        "(new blocks) is not modelled",
    ]
    if ctx.thorough:
        ctx.coqchk(["LV.Gossip.Props"])
