"""C20 — only authentic, fresh gossip changes the channel graph."""
from lib.verif import *

THEOREMS = [
    "C20_chan_ann_authentic", "C20_update_authentic", "C20_node_authentic",
    "C20_unchanged_not_relayed", "C20_premature_replay_revalidates",
    "C20_nodes_have_channels", "C20_node_ann_needs_channel",
    "C20_node_ann_channelless_window_refuted", "C20_zombie_resurrection_authentic",
    "C20_apply_update_authentic", "C20_atomic_updates_keep_max",
    "C20_nonatomic_updates_refuted",
]
MODULE = "LV.Gossip.Props"
TARGETS = ["theories/Gossip/Props.vo", "theories/Gossip/Exec.vo", "theories/Gossip/Examples.vo"]
HFILES = ["discovery/verif_gossip_test.go", "discovery/verif_gossip_interleave_test.go",
          "discovery/verif_gossip_store_kv_test.go",
          "discovery/verif_gossip_store_sql_test.go"]
WARM = [{"pkg": "discovery", "files": HFILES}]
IMPORTS = ("From Coq Require Import List NArith Bool.\nImport ListNotations.\n"
           "From LV Require Import Gossip.Model Gossip.Exec.\n")

ERR = {"own": "EOwn", "rejected": "ERejected", "chain": "EChain", "alias": "EAlias",
       "closed": "EClosed", "ca_invalid": "ECaInvalid", "nofund": "ENoFund",
       "badout": "EBadOut", "spent": "ESpent", "zerots": "EZeroTs", "skew": "ESkew",
       "zombie_key": "EZombieKey", "zombie_sig": "EZombieSig", "cu_invalid": "ECuInvalid",
       "na_invalid": "ENaInvalid", "outdated": "EOutdated", "ignored": "EIgnored"}


REMOVALS = ["reorg", "delete", "delete_zombie", "delete_zombie_strict", "spend"]
SWEEPS = ["none", "block_empty", "block_closing_other", "prune_nodes", "restart"]


def n(x):
    return "%d%%N" % int(x)


def verdict_term(v):
    if v == "ok":
        return "VOk"
    if v in ("pending", "timeout"):
        return "VPending"
    cls = v.split(":", 2)[1]
    return "(VErr %s)" % ERR.get(cls, "EOther")


def msg_term(m):
    if m["t"] == "ca":
        return ("(MCA (mkCA %s %s %s %s %s %s %s %s %s %s %s %s))" % (
            n(m["chain"]), n(m["scid"]), n(m["n1"]), n(m["n2"]), n(m["b1"]), n(m["b2"]),
            n(m["ns1"]), n(m["ns2"]), n(m["bs1"]), n(m["bs2"]), n(m["dg"]), cbool(m["tap"])))
    if m["t"] == "cu":
        return ("(MCU (mkCU %s %s %s %s %s %s %s %s %s %s %s %s %s))" % (
            n(m["chain"]), n(m["scid"]), n(m["ts"]), n(m["mf"]), n(m["cf"]), n(m["tld"]),
            n(m["min"]), n(m["max"]), n(m["base"]), n(m["rate"]), n(m["extra"]),
            n(m["sig"]), n(m["dg"])))
    return "(MNA (mkNA %s %s %s %s %s))" % (n(m["node"]), n(m["ts"]), n(m["sig"]), n(m["dg"]),
                                            cbool(m["fields_ok"]))


def pol_term(p):
    if p is None:
        return "None"
    return "(Some (mkPol %s))" % " ".join(n(x) for x in p)


def op_term(m):
    o = m["op"]
    if o == "connect":
        return "(OConnect %s)" % clist([n(x) for x in m["spent"]])
    if o == "disconnect":
        return "(ODisconnect %s %s)" % (n(m["lo"]), n(m["hi"]))
    if o == "delete":
        return "(ODelete %s %s %s)" % (n(m["scid"]), cbool(m["zombie"]), cbool(m["strict"]))
    return "OSweep"


DUMMY_MSG = "(MNA (mkNA 0%N 0%N 0%N 0%N false))"


def snap_term(g):
    es = ["(%s, mkEdge %s %s %s %s %s %s %s %s)" % (
        n(c[0]), n(c[1]), n(c[2]), n(c[3]), n(c[4]), n(c[5]), cbool(c[6]),
        pol_term(c[7]), pol_term(c[8])) for c in g["chans"]]
    ns = ["(%s, mkNode %s %s)" % (n(x[0]), n(x[1]), n(x[2])) for x in g["nodes"]]
    zs = ["(%s, (%s, %s))" % (n(z[0]), n(z[1]), n(z[2])) for z in g["zombies"]]
    return "(mkSnap %s %s %s %s)" % (clist(es), clist(ns), clist(zs),
                                     clist([n(z) for z in g["closed"]]))


def fund_term(f):
    if f["k"] == "notfound":
        return "FNotFound"
    if f["k"] == "rpcerr":
        return "FRpcErr"
    sc = "None" if f.get("script") is None else "(Some %s)" % n(f["script"])
    return "(FTx %s %s %s)" % (sc, n(f.get("value", 0)), ["UUnspent", "USpent", "UErr"][f.get("utxo", 2)])


def fill_graphs(case):
    """Attach the full graph after every step ('G')."""
    g = {"chans": [], "nodes": [[case["own"], 0, 0]], "zombies": [], "closed": []}
    for s in case["steps"]:
        if "g" in s:
            g = s["g"]
        s["G"] = g
    # the first step of a concurrent pair has no snapshot of its own: its effect is
    # judged together with the second one (see pair handling in predicate)


def case_term(case):
    fill_graphs(case)
    cids = {}

    def cid(h):
        if h not in cids:
            cids[h] = len(cids) + 1
        return cids[h]

    ver, script = set(), {}
    steps = []
    for s in case["steps"]:
        m, orc = s["m"], s["orc"]
        for t in orc.get("ver") or []:
            ver.add(tuple(t))
        fund = "FRpcErr"
        if m["t"] == "ca":
            # the chain moves during a case: the funding answer is per step
            fund = fund_term(orc["fund"])
            script[(m["b1"], m["b2"], bool(m["tap"]))] = orc["script"]
        resolved = ["(%s, %s)" % (n(r[0]), verdict_term(r[1])) for r in (s["resolved"] or [])]
        bans = ["(%s, %s)" % (n(p), n(b)) for p, b in zip(case["peers"], s["ban"])]
        # the same key may be used by two peers of the case: keep one entry
        seen, bans2 = set(), []
        for p, b in zip(case["peers"], bans):
            if p not in seen:
                seen.add(p)
                bans2.append(b)
        isop = m["t"] == "op"
        steps.append("mkStep %s %s %s %s %s %s %s %s %s %s %s %s %s %s" % (
            cbool(s.get("restart")), n(s["now"]), n(s["peer"]), n(cid(m["cid"])),
            "(Some %s)" % op_term(m) if isop else "None",
            cbool(s.get("via") == "apply"), cbool(s.get("nosnap")),
            fund, n(s.get("best", case["best"])),
            DUMMY_MSG if isop else msg_term(m), verdict_term(s["res"]),
            clist(resolved), snap_term(s["G"]), clist(bans2)))
    # between the two updates of a concurrent pair the harness cannot flush the gossiper's
    # de-duplication batch: whether the first one is still broadcast on its own is timing
    skipbc = {s["m"]["cid"] for s in case["steps"] if s.get("nosnap")}
    bc = sorted((cid(h), c) for h, c in case["bcast"].items() if h not in skipbc)
    cfg = "(mkCfg %s 1%%N %s false %s %s %s)" % (n(case["own"]), n(case["best"]), n(case["rebroadcast"]),
                                             n(case["prune"]), n(case["burst"]))
    return "mkCase %s %s %s\n %s\n %s\n %s\n %s" % (
        cfg, n(case["alias_start"]), cbool(case.get("backend", "bbolt") != "sqlite"),
        clist(["(%s, %s, %s)" % tuple(n(x) for x in t) for t in sorted(ver)]),
        clist(["(%s, %s, %s, %s)" % (n(k[0]), n(k[1]), cbool(k[2]),
                                      "None" if v is None else "(Some %s)" % n(v))
               for k, v in sorted(script.items())]),
        "[" + ";\n  ".join(steps) + "]",
        clist(["(%s, %s)" % (n(t[0]), n(t[1])) for t in bc]))


def upd_policy(u):
    return [u["ts"], u["mf"], u["cf"], u["tld"], u["min"], u["max"], u["base"], u["rate"],
            u["extra"], u["sig"]]


# signatures (matched against known_findings.json by Ctx.violation)
SIG_ZOMBIE = "C20 zombie:resurrected-by-non-owner"
SIG_ZOMBIE_OWNER = "C20 zombie:owner-update-rejected-as-badly-signed"
# node_announcement applied to a node without a known channel ...
SIG_NA_WINDOW = "C20 node-ann:channelless before-next-block"   # ... no block connected since it lost it
SIG_NA_BLOCK = "C20 node-ann:channelless after-block"          # + backend: blocks connected, no sweep point
SIG_NA_SWEPT = "C20 node-ann:channelless after-sweep"          # + backend: even after a sweep point
SIG_STALE_WRITE = "C20 update:not-strictly-newer-write"          # + entry points
SIG_FINAL_MAX = "C20 update:final-policy-is-not-the-newest-accepted"
SIG_VIEWS = "C20 update:graph-views-disagree"


def na_signature(inf, backend):
    """Which of the channel-less node_announcement situations is this?  A sweep
    point is an event after which NO store may still hold the node: restart,
    PruneGraphNodes, a connected block that closed a known channel; on bbolt also
    any connected block is one by the store's documented behaviour, but that
    case is kept apart (after-block bbolt) because it is what a skipped sweep in
    KVStore.PruneGraph looks like."""
    if inf is None or inf["how"] == "spend" or inf["swept"] > 0 or inf["closing"] > 0:
        return "%s %s" % (SIG_NA_SWEPT, backend)
    if inf["blocks"] == 0:
        return SIG_NA_WINDOW
    return "%s %s" % (SIG_NA_BLOCK, backend)


def writes_predicate(case):
    """The store wrapper's log of policy writes, in the order in which they were performed:
    per (channel, direction) every successful write must be strictly newer than what the
    store held when it was performed (the graph before the step, then the previous write of
    the step).  For the interleaving scenarios additionally: the final policy is the
    newest accepted one, and all views of the graph (by-id lookup, HasV1ChannelEdge, the
    iteration used for snapshots, the on-disk state after a restart) agree."""
    out = []
    steps = case["steps"]
    held = {}      # (scid, dir) -> timestamp the store holds (None: no policy)
    by_step = {}
    for w in case.get("writes") or []:
        by_step.setdefault(w["step"], []).append(w)
    prev = {"chans": []}
    skip_to = -1
    for s in steps:
        i = s["i"]
        if i <= skip_to:
            prev = s["G"]
            continue
        ws = list(by_step.get(i, []))
        if s.get("nosnap"):
            skip_to = i + 1                       # the pair shares one write window
        cur = {}
        for c in prev["chans"]:
            for d in (0, 1):
                cur[(c[0], d)] = c[7 + d][0] if c[7 + d] is not None else None
        for w in ws:
            k = (w["scid"], w["dir"])
            if not w["ok"] or k not in cur:
                continue
            if cur[k] is not None and w["ts"] <= cur[k]:
                vias = "+".join(x.get("via", "gossip") for x in steps[i:i + (2 if s.get("nosnap") else 1)])
                out.append(("%s %s" % (SIG_STALE_WRITE, vias),
                            "step %d: policy %d/%d with timestamp %d was WRITTEN although the store "
                            "held timestamp %d at that moment (writes of the step, in order: %s)" %
                            (i, w["scid"], w["dir"], w["ts"], cur[k],
                             [(x["ts"], x["ok"]) for x in ws])))
            cur[k] = w["ts"]
        prev = steps[min(i + 1, len(steps) - 1)]["G"] if s.get("nosnap") else s["G"]
    il = case.get("interleave")
    if il:
        scid, d = il["scid"], il["dir"]
        pair = [s for s in steps if s["tag"].startswith("cu_i_1") or s["tag"].startswith("cu_i_2")]
        before = None
        for s in steps:
            if s.get("nosnap"):
                break
            for c in s["G"]["chans"]:
                if c[0] == scid:
                    before = c[7 + d][0] if c[7 + d] is not None else None
        accepted = [x["m"]["ts"] for x in pair if x["res"] == "ok"]
        want = max([t for t in accepted] + ([before] if before is not None else []), default=None)
        final = None
        for c in pair[-1]["G"]["chans"]:
            if c[0] == scid and c[7 + d] is not None:
                final = c[7 + d][0]
        if final != want:
            out.append((SIG_FINAL_MAX,
                        "interleaving %s/%s (%s, second commits first: %s, both past their check: %s): "
                        "stored timestamp before %s, accepted updates %s, the graph ends with "
                        "timestamp %s instead of %s" %
                        (il["via1"], il["via2"], il["rel"], il["second_first"], il["both_past_check"],
                         before, [(x["m"]["ts"], x.get("via")) for x in pair], final, want)))
        cold = None
        for c in steps[-1]["G"]["chans"]:
            if c[0] == scid and c[7 + d] is not None:
                cold = c[7 + d][0]
        views = {"snapshot": final, "on-disk-after-restart": cold}
        for name, v in (il.get("views") or {}).items():
            views[name] = v[d] if v[d] >= 0 else None
        for name, v in (il.get("views_cold") or {}).items():
            views[name + "-after-restart"] = v[d] if v[d] >= 0 else None
        if len(set(views.values())) > 1:
            out.append((SIG_VIEWS, "interleaving %s/%s (%s): the views of policy %d/%d disagree: %s" %
                        (il["via1"], il["via2"], il["rel"], scid, d, views)))
    return out


def predicate(case, obs=None):
    """Property predicate on the IMPLEMENTATION's trace alone (independent of
    the Coq model): every graph change is explained by an authentic, fresh
    message per the harness' own re-verification, or by a graph maintenance
    event that may cause exactly that change (channels: block spend, re-org,
    explicit deletion; nodes: a sweep of nodes that have no channel; zombie
    index: deletion with zombie marking); a node announcement is applied only
    to a node that has a known channel AT THAT MOMENT; a zombie entry
    disappears only through an update signed by the REAL owner of its
    direction (node keys tracked here from the channel as it was in the graph,
    not read back from the zombie index); rejections leave the graph
    unchanged; nothing reaches Broadcast more often than it changed the graph.
    Returns a list of (signature, text).  obs: counters per signature."""
    fill_graphs(case)
    if obs is None:
        obs = {}
    fails = []

    def fail(text, sig=None):
        fails.append((sig or ("gossip predicate: " + text.split(": ", 1)[-1][:70]), text))

    ver = set()
    for s in case["steps"]:
        for t in s["orc"].get("ver") or []:
            ver.add(tuple(t))
    own = case["own"]
    backend = case.get("backend", "bbolt")
    gp = {"chans": [], "nodes": [[own, 0, 0]], "zombies": [], "closed": []}
    pend = {}          # scid -> [update messages waiting for the channel]
    effect = {}        # content id -> number of graph changes it caused
    real = {}          # scid -> (node1, node2) of the channel as last seen in the graph
    orphan = {}        # node -> how it lost its last channel and what happened since
    pair_first = None  # first step of a concurrent pair (no snapshot between the two)
    for s in case["steps"]:
        i, m, orc, g = s["i"], s["m"], s["orc"], s["G"]
        if s.get("nosnap"):
            if s["res"] == "timeout":
                fail("step %d: no answer from the gossiper" % i)
            pair_first = s
            continue
        isop = m["t"] == "op"
        op = m.get("op") if isop else None
        if s.get("restart"):
            pend = {}      # parked updates died with the old gossiper
        cp = {c[0]: c for c in gp["chans"]}
        cn = {c[0]: c for c in g["chans"]}
        np_ = {x[0]: x for x in gp["nodes"]}
        nn = {x[0]: x for x in g["nodes"]}
        zp = {z[0]: z for z in gp["zombies"]}
        zn = {z[0]: z for z in g["zombies"]}
        for c in gp["chans"]:
            real[c[0]] = (c[1], c[2])
        changed = False
        new_chan = None
        # what happened to the orphans' environment in this step (before looking at the NA)
        closes_known = op == "connect" and any(x in cp for x in m["spent"])
        for scid in cp:
            if scid not in cn:
                ok = (op == "connect" and scid in m["spent"]) or \
                     (op == "disconnect" and m["lo"] <= scid < m["hi"]) or \
                     (op == "delete" and scid == m["scid"])
                if not ok:
                    fail("step %d: channel %d disappeared (%s)" % (i, scid, op or m["t"]))
        for scid, c in cn.items():
            if scid not in cp:
                changed = True
                new_chan = c
                f = orc.get("fund") or {}
                ok = (m["t"] == "ca" and m["scid"] == scid and
                      [m["n1"], m["n2"], m["b1"], m["b2"]] == c[1:5] and
                      (m["b1"], m["dg"], m["bs1"]) in ver and (m["b2"], m["dg"], m["bs2"]) in ver and
                      (m["n1"], m["dg"], m["ns1"]) in ver and (m["n2"], m["dg"], m["ns2"]) in ver and
                      m["chain"] == 1 and own not in (m["n1"], m["n2"]))
                if not ok:
                    fail("step %d: channel %d entered the graph without four valid "
                         "signatures over the announcement" % (i, scid))
                elif not (f.get("k") == "tx" and f.get("script") is not None and
                          f.get("script") == orc.get("script") and f.get("utxo") == 0 and
                          f.get("value") == c[5]):
                    fail("step %d: channel %d entered the graph but its funding output "
                         "is %s (expected script %s)" % (i, scid, f, orc.get("script")))
                else:
                    effect[m["cid"]] = effect.get(m["cid"], 0) + 1
                oldp = [None, None]
            else:
                if c[:7] != cp[scid][:7]:
                    fail("step %d: channel %d static fields changed" % (i, scid))
                oldp = cp[scid][7:9]
            for d in (0, 1):
                newp = c[7 + d]
                if newp == oldp[d]:
                    continue
                changed = True
                cands = []
                if m["t"] == "cu":
                    cands = [m] + ([pair_first["m"]] if pair_first else [])
                elif m["t"] == "ca" and m["scid"] == scid:
                    cands = pend.get(scid, [])
                hit = None
                for u in cands:
                    if u["scid"] == scid and (u["cf"] & 1) == d and upd_policy(u) == newp:
                        hit = u
                hvia = (pair_first if pair_first and hit is pair_first["m"] else s).get("via", "gossip")
                capm = c[5] * 1000
                if hit is None:
                    fail("step %d: policy %d/%d changed to %s, not the content of the "
                         "message(s) at hand" % (i, scid, d, newp))
                elif not ((c[1 + d], hit["dg"], hit["sig"]) in ver and
                          (hit["ts"] > 0 and hit["chain"] == 1 or hvia == "apply") and
                          (oldp[d] is None or oldp[d][0] < hit["ts"]) and
                          (hit["mf"] & 1) and hit["max"] > 0 and hit["max"] >= hit["min"] and
                          (capm == 0 or hit["max"] <= capm)):
                    if oldp[d] is not None and oldp[d][0] >= hit["ts"]:
                        why = "policy replaced by a not-strictly-newer update (%s)" % hvia
                    elif capm != 0 and hit["max"] > capm:
                        why = ("updated with inconsistent fields: htlc_maximum_msat %d exceeds the "
                               "capacity %d msat" % (hit["max"], capm))
                    elif not (hit["mf"] & 1) or hit["max"] == 0 or hit["max"] < hit["min"]:
                        why = "updated with inconsistent fields (max-htlc flag / max / min)"
                    else:
                        why = "updated by an update that is not authentic"
                    fail("step %d: policy %d/%d %s: %s (old %s, cap %d)" %
                         (i, scid, d, why, hit, oldp[d], c[5]))
                elif pair_first and (pair_first if hit is pair_first["m"] else s)["res"] != "ok":
                    fail("step %d: policy %d/%d is the content of an update that was answered %s" %
                         (i, scid, d, (pair_first if hit is pair_first["m"] else s)["res"]))
                elif pair_first:
                    # both updates of the pair may have changed the graph one after the
                    # other: the store's write log says which did
                    for w in case.get("writes") or []:
                        if w["step"] == pair_first["i"] and w["ok"] and (w["scid"], w["dir"]) == (scid, d):
                            for x in (pair_first["m"], m):
                                if x["ts"] == w["ts"]:
                                    effect[x["cid"]] = effect.get(x["cid"], 0) + 1
                                    break
                else:
                    effect[hit["cid"]] = effect.get(hit["cid"], 0) + 1
        # ---- zombie index ----
        for scid, z in zn.items():
            if scid in zp and zp[scid] == z:
                continue
            if scid in zp:
                fail("step %d: zombie entry of %d rewritten %s -> %s" % (i, scid, zp[scid], z))
            elif op == "delete" and m["scid"] == scid and m["zombie"]:
                pass
            elif m["t"] == "ca" and m["scid"] == scid and z[1:] == [0, 0]:
                pass        # failed funding validation: marked, nobody may resurrect it
            else:
                fail("step %d: zombie entry %s appeared (%s)" % (i, z, op or m["t"]))
        for scid, z in zp.items():
            if scid in zn:
                continue
            changed = True
            d = (m.get("cf", 0) & 1) if m["t"] == "cu" else None
            owner = real.get(scid, (None, None))[d] if d is not None else None
            if not (m["t"] == "cu" and m["scid"] == scid and owner is not None and
                    (owner, m["dg"], m["sig"]) in ver and m["ts"] > 0 and m["chain"] == 1):
                signers = sorted(t[0] for t in ver if m["t"] == "cu" and t[1:] == (m["dg"], m["sig"]))
                fail("step %d: zombie channel %d (stored keys %s) was resurrected by a %s that is "
                     "not a channel_update signed by the owner of its direction (direction %s, "
                     "real owner key %s of channel keys %s, signature verifies under key(s) %s)" %
                     (i, scid, z[1:], m["t"], d, owner, real.get(scid), signers), SIG_ZOMBIE)
        if m["t"] == "cu" and s["res"] == "err:zombie_sig" and m["scid"] in real:
            owner = real[m["scid"]][m["cf"] & 1]
            if (owner, m["dg"], m["sig"]) in ver:
                fail("step %d: channel_update for zombie channel %d, direction %d, properly signed by "
                     "the owner of that direction (key %d), was rejected as badly signed (zombie "
                     "index keys %s)" % (i, m["scid"], m["cf"] & 1, owner,
                                         zp.get(m["scid"], [None])[1:]), SIG_ZOMBIE_OWNER)
        # ---- nodes ----
        for k in np_:
            if k not in nn:
                sweeping = op in ("connect", "prune_nodes") or s.get("restart")
                still = any(k in c[1:3] for c in g["chans"])
                if not sweeping or still or k == own:
                    fail("step %d: node %d disappeared (%s, has channel afterwards: %s)" %
                         (i, k, op or m["t"], still))
        # bookkeeping of nodes that lost their last channel without a sweep
        for k, inf in list(orphan.items()):
            if s.get("restart") or op == "prune_nodes":
                inf["swept"] += 1
            if op == "connect":
                inf["blocks"] += 1
                inf["closing"] += 1 if closes_known else 0
        for k, x in nn.items():
            if k not in np_:
                changed = True
                if not (x[1:] == [0, 0] and new_chan is not None and k in new_chan[1:3]):
                    fail("step %d: node %d appeared without a channel announcement" % (i, k))
            elif x != np_[k]:
                changed = True
                has_chan = any(k in c[1:3] for c in gp["chans"]) or k == own
                if s.get("restart") and not has_chan and x[1:] == [0, 0] and \
                        new_chan is not None and k in new_chan[1:3]:
                    continue    # swept by the restart, re-created as a shell by the announcement
                ok = (m["t"] == "na" and m["node"] == k and (k, m["dg"], m["sig"]) in ver and
                      m["ts"] > np_[k][1] and x[1:] == [m["ts"], m["sig"]] and
                      m["fields_ok"])
                if not ok:
                    fail("step %d: node %d changed %s -> %s by a message that is not an "
                         "authentic newer announcement of that node" % (i, k, np_[k], x))
                elif not has_chan:
                    inf = orphan.get(k)
                    txt = ("step %d: node_announcement applied to node %d which has NO known channel "
                           "(%s -> %s; last channel lost at step %s by %s; since then blocks=%s "
                           "closing-a-known-channel=%s sweeps=%s; backend %s)" %
                           (i, k, np_[k], x, inf and inf["step"], inf and inf["how"],
                            inf and inf["blocks"], inf and inf["closing"], inf and inf["swept"], backend))
                    sig = na_signature(inf, backend)
                    obs[sig] = obs.get(sig, 0) + 1
                    fail(txt, sig)
                else:
                    effect[m["cid"]] = effect.get(m["cid"], 0) + 1
        for k in nn:
            if k != own and not any(k in c[1:3] for c in g["chans"]):
                if k not in orphan:
                    orphan[k] = {"step": i, "how": "spend" if op == "connect" else (op or m["t"]),
                                 "blocks": 0, "closing": 0, "swept": 0}
            else:
                orphan.pop(k, None)
        for k in list(orphan):
            if k not in nn:
                orphan.pop(k)
        if isop and (new_chan is not None or any(
                k in np_ and nn[k] != np_[k] for k in nn) or
                any(scid in cp and cn[scid][7:9] != cp[scid][7:9] for scid in cn)):
            fail("step %d: a graph maintenance event (%s) added or rewrote graph content" % (i, op))
        if changed and pair_first:
            if pair_first["res"].startswith("err") and s["res"].startswith("err"):
                fail("step %d: graph changed although both concurrent updates were rejected" % i)
        elif changed and s["res"].startswith("err"):
            fail("step %d: graph changed although the message was rejected (%s)" %
                 (i, s["res"]))
        if s["res"] == "pending":
            pend.setdefault(m["scid"], []).append(m)
        if s["res"] == "timeout":
            fail("step %d: no answer from the gossiper" % i)
        for r in s["resolved"] or []:
            if r[1] == "timeout":
                fail("step %d: premature update of step %d never answered" % (i, r[0]))
        if m["t"] == "ca" and s["resolved"]:
            pend.pop(m["scid"], None)
        pair_first = None
        gp = g
    fails += writes_predicate(case)
    known = {s["m"]["cid"] for s in case["steps"]}
    for h, cnt in case["bcast"].items():
        if h not in known:
            fail("a message that was never submitted was broadcast (%s)" % h)
        elif cnt > effect.get(h, 0):
            fail("message %s was relayed %d time(s) but changed the graph %d time(s)" %
                 (h, cnt, effect.get(h, 0)))
    return fails


def run(ctx):
    pr = ctx.proof_stage(MODULE, THEOREMS, TARGETS, extra_trusted=[
        "signature verification (key parses, signature parses, ECDSA verify over the double-SHA256 "
        "of DataToSign), the chain backend answers and the 2-of-2 funding-script constructor are "
        "Section variables: the theorems are implications over them for ANY such oracles; the "
        "correspondence run instantiates them with tables recomputed by the harness with btcec / "
        "input.GenFundingPkScript, independently of the gossiper",
        "funding clause proved for AssumeChannelValid=false (alias SCIDs are rejected for remote "
        "announcements before any graph access)"])
    # Both graph-store backends on every run: bbolt with the full case count, sqlite with a
    # smaller batch (its own seed stream), concurrently.
    import os as _os
    from concurrent.futures import ThreadPoolExecutor
    ncases_env = _os.environ.get("VERIF_CASES")
    jobs = [("bbolt", ctx.uid(), "verif", {}, False),
            ("sqlite", ctx.uid("sql"), "verif test_db_sqlite",
             {} if ncases_env else {"VERIF_CASES": "800" if ctx.thorough else "60"}, False)]
    if ctx.thorough and not ctx.replay:
        # the interleaving scenarios (+ a few ordinary cases) again under the race detector,
        # on their own seed
        rs = {"VERIF_CASES": "40", "VERIF_SEED": str(ctx.seed + 1000)}
        jobs += [("bbolt", ctx.uid("race"), "verif", rs, True),
                 ("sqlite", ctx.uid("sqlrace"), "verif test_db_sqlite", rs, True)]
    if ctx.replay:
        # --replay: re-run exactly the recorded case (same seed, case index, backend)
        import json as _json
        rp = _json.load(open(ctx.replay))
        det = rp.get("detail") or {}
        if "case" in det:
            renv = {"VERIF_SEED": str(det.get("seed", rp.get("seed", ctx.seed))),
                    "VERIF_CASE_ONLY": str(det["case"]),
                    "VERIF_TIER": rp.get("tier", ctx.tier), "VERIF_CASES": str(int(det["case"]) + 1)}
            jobs = [(bk, uid, tg, renv, False) for bk, uid, tg, _, _ in jobs
                    if bk == det.get("backend", "bbolt")]

    def one(job):
        bk, uid, tg, env, race = job
        rc, trace, out = run_harness(uid, "discovery", HFILES, "^TestVerifGossip$", timeout=3000,
                                     tags=tg, env=env, extra=["-parallel", "5"], race=race)
        rws = sorted(read_jsonl(trace), key=lambda r: r["case"])
        for r in rws:
            r["seed"] = int(env.get("VERIF_SEED", ctx.seed))
            r["race"] = race
        if race and "DATA RACE" in out:
            rc = rc or 1
        return bk, rc, rws, out

    rows = []
    with ThreadPoolExecutor(max_workers=2) as ex:
        for bk, rc, rws, out in ex.map(one, jobs):
            if rc != 0 or not rws:
                ctx.violation("harness_failed", "TestVerifGossip (%s)" % bk, {"log": out[-6000:]},
                              signature="harness", failing_input=False)
                return
            rows += rws
    nfail = 0
    pred_bad = set()
    obs = {}
    seen_sig = {}
    for c in rows:
        f = predicate(c, obs)
        if f:
            pred_bad.add((c["backend"], c["case"], c["seed"]))
            nfail += 1
            # one report per distinct signature of the case; per signature at most 3
            # reports per run (known findings are matched on the signature)
            for sig in dict.fromkeys(x[0] for x in f):
                seen_sig[sig] = seen_sig.get(sig, 0) + 1
                if seen_sig[sig] > 3:
                    continue
                mine = [x[1] for x in f if x[0] == sig]
                ctx.violation("impl_violates_predicate", "C20 authenticity predicate",
                              {"seed": c["seed"], "case": c["case"], "backend": c["backend"],
                               "kind": c["kind"], "template": c.get("template"),
                               "interleave": c.get("interleave"), "writes": c.get("writes"),
                               "fails": mine[:6],
                               "other_fails_of_the_case": [x[1] for x in f if x[0] != sig][:6],
                               "steps": [{k: s.get(k) for k in ("i", "restart", "tag", "via", "nosnap", "m",
                                                                "orc", "res", "resolved", "G")}
                                         for s in c["steps"]], "bcast": c["bcast"],
                               "replay": "./check C20 --replay <this file>"},
                              signature=sig)
    terms = [case_term(c) for c in rows]
    ok, bad, logs = coq_mismatches(ctx.uid(), IMPORTS, terms, shard=max(4, len(terms) // NCPU + 1))
    if not ok:
        ctx.violation("correspondence_mismatch", "Gossip.Exec (model evaluation failed)",
                      {"logs": logs}, signature="model-eval", failing_input=False)
    for ci, idx in bad[:3]:
        c = rows[ci]
        first = [s for s in c["steps"] if s["i"] in idx[:3]]
        ctx.violation("correspondence_mismatch", "Gossip.Exec.check_case",
                      {"seed": c["seed"], "case": c["case"], "backend": c["backend"], "kind": c["kind"],
                       "interleave": c.get("interleave"), "disagreeing_steps": idx,
                       "steps": [{k: s.get(k) for k in ("i", "tag", "via", "nosnap", "m", "orc", "res",
                                                        "resolved", "ban", "G")}
                                 for s in first],
                       "bcast": c["bcast"],
                       "replay": "./check C20 --replay <this file>"},
                      signature="gossip mismatch",
                      failing_input=((c["backend"], c["case"], c["seed"]) in pred_bad))
    if not pr["ok"] and not ctx.violations:
        ctx.violation("proof_broken", ", ".join(pr["broken"]) or "Gossip build",
                      {"log": pr["log"][-4000:]}, signature="proof", failing_input=False)
    tags_h, verd, types, kinds = {}, {}, {}, {}
    ops_h, tmpl_h, after_h = {}, {}, {}
    via_h, il_h, il_both = {}, {}, 0
    nwrites = 0
    nsteps = changed = relayed = pending = restarts = 0
    zombie_marked = zombie_resurrected = 0
    for c in rows:
        kinds[c["kind"]] = kinds.get(c["kind"], 0) + 1
        relayed += sum(c["bcast"].values())
        nwrites += len(c.get("writes") or [])
        if c.get("interleave"):
            il = c["interleave"]
            k = "%s/%s+%s/%s/%s" % (c["backend"], il["via1"], il["via2"], il["rel"],
                                    "second-first" if il["second_first"] else "held-first")
            il_h[k] = il_h.get(k, 0) + 1
            il_both += 1 if il["both_past_check"] else 0
        if c.get("template", -1) >= 0:
            t = c["template"]
            name = "%s/%s/%s" % (c["backend"], REMOVALS[t % len(REMOVALS)], SWEEPS[t // len(REMOVALS)])
            tmpl_h[name] = tmpl_h.get(name, 0) + 1
        last_op, zprev = None, set()
        for s in c["steps"]:
            nsteps += 1
            restarts += 1 if s.get("restart") else 0
            t = s["tag"].split("_resigned")[0]
            tags_h[t] = tags_h.get(t, 0) + 1
            mt = s["m"]["t"]
            if mt == "op":
                m = s["m"]
                o = m["op"]
                if o == "connect":
                    o = "connect_" + ("closing" if m["spent"] else "empty") + \
                        ("_remined" if m.get("remined") else "")
                elif o == "delete":
                    o = "delete" + ("_notfound" if m.get("notfound") else "") + \
                        ("_zombie" if m["zombie"] else "") + ("_strict" if m["strict"] else "")
                ops_h[o] = ops_h.get(o, 0) + 1
                last_op = s["m"]["op"]
            else:
                verd[s["res"]] = verd.get(s["res"], 0) + 1
                if mt == "cu":
                    k = "%s %s" % (s.get("via", "gossip"), "graph changed" if "g" in s else s["res"])
                    via_h[k] = via_h.get(k, 0) + 1
                if last_op or s.get("restart"):
                    # message kinds that arrive right after a graph maintenance event
                    k = "%s after %s" % (mt, "restart" if s.get("restart") else last_op)
                    after_h[k] = after_h.get(k, 0) + 1
                last_op = None
            types[mt] = types.get(mt, 0) + 1
            changed += 1 if "g" in s else 0
            pending += len(s["resolved"] or [])
            zs = {z[0] for z in s["G"]["zombies"]}
            if mt == "op":
                zombie_marked += len(zs - zprev)
            zombie_resurrected += len(zprev - zs)
            zprev = zs
    ctx.cov.update({
        "evaluations": nsteps,
        "cases": len(rows),
        "distinct_nontrivial": distinct_count(
            [c for c in rows if len(c["steps"]) > 3],
            lambda c: [(s["tag"], s["res"], s["m"]["t"], s["m"].get("ts"), "g" in s) for s in c["steps"]]),
        "rule": "one case = fresh gossiper + started graph.Builder + graph DB, 8-30 events: remote "
                "messages (valid, duplicate, stale/equal/+1 timestamps, field corruptions with and "
                "without re-signing, single-bit wire corruptions, wrong-direction/stranger signers, "
                "funding: spent/err/wrong script/missing block/bad index), restarts, and in every "
                "4th case ('history') graph maintenance events on the real Builder/store (blocks "
                "connected with/without spends of known channels, tip blocks re-orged out and "
                "re-mined, DeleteChannelEdges with/without zombie marking and strict pruning, "
                "PruneGraphNodes) laid out by enumerated templates (removal kind x sweep kind x "
                "update pattern) followed by node announcements of the endpoints, updates for both "
                "directions signed by the owner and by the other party, the announcement again, "
                "and a random tail; every 7th free-choice channel update goes through the second "
                "entry point Builder.ApplyChannelUpdate; 24 enumerated interleaving scenarios per "
                "backend (entry point x entry point x older/equal/newer x commit order) with the "
                "first update HELD at the store boundary between its freshness check and its write; "
                "non-trivial = more than 3 events; distinct by (generator tag, "
                "verdict, type, timestamp, graph-changed) list",
        "traces_validated_against_impl": len(rows),
        "case_kinds": kinds, "message_types": types, "verdicts": verd,
        "generator_tags": dict(sorted(tags_h.items())),
        "steps_changing_graph_or_indexes": changed,
        "messages_broadcast": relayed,
        "premature_updates_replayed": pending,
        "restarts_on_cold_store": restarts,
        "graph_maintenance_events": dict(sorted(ops_h.items())),
        "channel_updates_by_entry_point": dict(sorted(via_h.items())),
        "interleaving_scenarios": dict(sorted(il_h.items())),
        "interleavings_with_both_updates_past_their_check": il_both,
        "policy_writes_logged_at_the_store": nwrites,
        "cases_under_race_detector": sum(1 for r in rows if r.get("race")),
        "history_templates": dict(sorted(tmpl_h.items())),
        "messages_right_after_maintenance_event": dict(sorted(after_h.items())),
        "zombie_entries_marked_by_deletion": zombie_marked,
        "zombie_entries_resurrected": zombie_resurrected,
        "channelless_node_announcements_applied": dict(sorted(obs.items())),
        "predicate_failures_by_signature": dict(sorted(seen_sig.items())),
        "predicate_failures": nfail,
        "correspondence_mismatches": len(bad),
        "graph_backends": {b: sum(1 for r in rows if r.get("backend") == b)
                           for b in ("bbolt", "sqlite")},
        "samples": [[(s["tag"], s["res"]) for s in rows[0]["steps"][:8]]],
    })
    ctx.assumptions += [
        "remote (network) announcements only; local announcements, AnnounceSignatures and gossip "
        "v2 messages (not dispatched by processNetworkAnnouncement in this tree) are out of scope",
        "goroutine structure (validation barrier, batching) is exercised, not modelled: the harness "
        "submits one message at a time and waits for quiescence",
        "block-height-premature messages are answered nil and parked; their later re-injection "
        "(new blocks) is not modelled: block epochs are not delivered to the gossiper, its best "
        "height only moves at a restart (recorded per step and handed to the model)",
        "node_announcement applied to a node without a known channel is ALWAYS reported; the "
        "signature says in which situation (before-next-block = known finding C20-F2, after-block "
        "sqlite = known finding C20-F3, after-block bbolt / after-sweep = violation); the Coq model "
        "mirrors the stores' real sweeping (flag sweep_always) and the clause is stated as "
        "C20_node_ann_channelless_window_refuted",
        "interleavings: two concurrent updates per channel direction (N=2); the hook sits at the "
        "Store.UpdateEdgePolicy boundary; 'does the second update get past its check while the "
        "first is held' is decided by waiting 250 ms (on a correct tree it never does, so the "
        "outcome there does not depend on timing); the gossiper's IsStaleEdgePolicy pre-check runs "
        "outside the Builder mutex, so the second update of a pair may be answered ErrOutdated "
        "where the sequential model says nil (accepted by Exec only with an unchanged graph)",
        "Builder.pruneZombieChans (a timer) is replayed as its store calls "
        "DeleteChannelEdges(strict, markZombie=true) + PruneGraphNodes",
    ]
    if ctx.thorough:
        ctx.coqchk(["LV.Gossip.Props"])
