"""C04 — every revoked commitment can be punished from persisted data.

Channel-history layers (revocation-log bookkeeping, retribution decision table; Channel/Punish*.v,
harness/lnwallet/verif_punish_test.go) + the script layer (props/c0405_script.py) as an extra stage
+ the chain-watcher stage (props/breachwatch.py, harness/contractcourt/verif_breachwatch_test.go):
the watcher recognises every revoked commitment from its own, early-loaded OpenChannel."""
from props import punish_check, breachwatch

WARM = punish_check.WARM + breachwatch.WARM


def run(ctx):
    punish_check.run_prop(ctx, "C04")
