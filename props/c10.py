"""C10 — wire codecs are total, canonical and lossless for every BOLT message."""
import collections
import os
import re

from lib.verif import *

THEOREMS = [
    "C10_bigsize_roundtrip", "C10_bigsize_canonical",
    "C10_tlv_accept_iff_canonical", "C10_tlv_p2p_accepts_exactly",
    "C10_tlv_decode_encode_id", "C10_tlv_total",
    "C10_tlv_nonp2p_canonical_accepted", "C10_tlv_nonp2p_refuted",
    "C10_tlv_bigsize_record_refuted", "C10_extra_unknown_dropped_refuted",
    "C10_layout_roundtrip", "C10_fixpoint", "C10_layout_canonical",
    "C10_size", "C10_message_roundtrip", "C10_wire_layouts_ok",
    "C10_tlvmsg_roundtrip", "C10_tlvmsg_fixpoint", "C10_tlvmsg_loss_exactly_unknown",
    "C10_gen_tlvmsgs_ok", "C10_gen_layouts_ok", "C10_gen_matches_handwritten",
    "C10_failure_roundtrip", "C10_gen_failures_ok", "C10_tlvmsg_always_record_grows",
    "C10_feature_vector_roundtrip",
    "C10_optmsg_roundtrip", "C10_optmsg_fixpoint", "C10_gen_optmsgs_ok",
    "C10_failure_update_roundtrip", "C10_gen_fdescs_ok", "C10_gen_coverage",
    "C10_scids_empty_grows",
    "C10_elided_roundtrip_iff", "C10_elided_canonical", "C10_elided_lossy",
    "C10_gen_elisions_ok", "C10_gen_elisions_sound", "C10_gen_elisions_sites",
]
MODULE = "LV.Wire.Props"
TARGETS = ["theories/Wire/Props.vo", "theories/Wire/Exec.vo", "theories/Wire/Examples.vo",
           "theories/Gen/GenWireSym.vo", "theories/Wire/GenBridge.vo"]
H_TLV = ["tlv/verif_tlv_test.go"]
H_WIRE = ["lnwire/verif_wire_test.go"]
WARM = [{"pkg": "tlv", "files": H_TLV, "moddir": "tlv"},
        {"pkg": "lnwire", "files": H_WIRE}]
IMPORTS = ("From Coq Require Import List NArith Bool Uint63.\nImport ListNotations.\n"
           "From LV Require Import Wire.Model Wire.MsgModel Wire.Exec.\n")

SIG_COPYN = "C10 tlv:nonp2p-negative-length"
SIG_BIGSIZE = "C10 tlv:bigsize-record-ignores-length"
SIG_DROP = "C10 wire:unknown-tlv-dropped-on-reencode"

# message types whose Encode re-packs ExtraData from the known records only
# (EncodeMessageExtraData / PackRecords): finding C10-F1 is limited to these
DROP_TYPES = {32, 33, 34, 35, 36, 39, 40, 41, 133, 136, 258, 263, 264, 265}

MAX_SCIDS = 100000          # lnwire.maxDecodedShortChanIDs (zlib decode bound)
MAX_COQ_BYTES = 6000        # longer inputs are checked by the python predicates only
MAX_COQ_FEAT = 40000        # ... except the feature-vector boundary rows (8192-byte vectors)


def coq_cap(r):
    return MAX_COQ_FEAT if str(r.get("mut", "")).startswith("feat") else MAX_COQ_BYTES
U64 = 1 << 64

# ------------------------------------------------------------------ Coq terms


def cbytes(hexstr):   # shadows lib.verif.cbytes: packed transport, see Wire.Exec.ub
    """a byte string as `ub n [ints]`: 7 bytes per primitive int (parses ~10x faster)"""
    b = bytes.fromhex(hexstr)
    if not b:
        return "(ub 0%N [])"
    ints = []
    for i in range(0, len(b), 7):
        c = b[i:i + 7]
        ints.append(str(int.from_bytes(c + bytes(7 - len(c)), "big")))
    return "(ub %d%%N [%s]%%uint63)" % (len(b), ";".join(ints))


def t_kind(k):
    typ, kind, n = k
    c = {"F": "KFixed %s" % cN(n), "T": "KTrunc %s" % cN(n), "V": "KVar", "B": "KBool",
         "S": "KBigSize"}[kind]
    return "(%s, %s)" % (cN(typ), c)


def t_recs(recs):
    return clist(["(%s, %s)" % (cN(t), cbytes(v)) for t, v in recs])


def t_fval(f):
    return "VN %s" % cN(f[1]) if f[0] == "n" else "VB %s" % cbytes(f[1])


def t_case(r):
    k = r["k"]
    if k == "varread":
        return "CVarRead %s %s %s %s" % (cbytes(r["b"]), cN(r["code"]), cN(r["v"]), cN(r["left"]))
    if k == "varwrite":
        return "CVarWrite %s %s" % (cN(r["v"]), cbytes(r["out"]))
    if k == "stream":
        if r["full"]:
            return "CStream %s %s %s %s %s %s" % (
                clist([t_kind(x) for x in r["known"]]), cbool(r["p2p"]), cbytes(r["b"]),
                cN(r["code"]), t_recs(r["recs"]), cbytes(r["reenc"]))
        return "CStreamCode %s %s %s %s" % (
            clist([t_kind(x) for x in r["known"]]), cbool(r["p2p"]), cbytes(r["b"]),
            cN(r["code"]))
    if k == "msg" and (r.get("tlvmsg") or r.get("optmsg")):
        return "%s %s %s %s %s %s %s %s" % (
            "COMsg" if r.get("optmsg") else "CTMsg",
            cbytes(r["b"]), cbool(r["ok"]), cN(r["t"]),
            clist([t_fval(f) for f in r.get("fields") or []]), cbytes(r.get("extra") or ""),
            cbytes(r.get("reenc") or ""), clist([cbytes(x) for x in r.get("pts") or []]))
    if k == "msg" and r.get("pts") is not None:
        return "CMsgP %s %s %s %s %s %s" % (
            cbytes(r["b"]), cbool(r["ok"]), cN(r["t"]),
            clist([t_fval(f) for f in r.get("fields") or []]), cbytes(r.get("reenc") or ""),
            clist([cbytes(x) for x in r["pts"]]))
    if k == "msg":
        return "CMsg %s %s %s %s %s" % (
            cbytes(r["b"]), cbool(r["ok"]), cN(r["t"]),
            clist([t_fval(f) for f in r.get("fields") or []]), cbytes(r.get("reenc") or ""))
    if k == "fail":
        return "CFail %s %s %s %s %s" % (
            cbool(r["api"] == "DecodeFailure"), cbytes(r["b"]), cbool(r["ok"]), cN(r["t"]),
            cbytes(r.get("reenc") or ""))
    if k == "write":
        return "CWrite %s %s %s %s" % (
            cN(r["t"]), clist([t_fval(f) for f in r["fields"]]), cbool(r["ok"]),
            cbytes(r.get("out") or ""))
    raise ValueError(k)


# ------------------------------------------------ generated layouts (Gen/GenWire.v)

CUSTOM_FIRST = 32768        # Custom.Encode/Decode: hand-written layout [FRest] (Wire/Exec.v)


def load_gen_fields():
    """{type: {"kind": "plain"|"tlv", "mode", "ext", "fields": [(name, codec, cond)]}} from the
    `(* @fields ... *)` lines the translator writes into Gen/GenWire.v."""
    out = {}
    try:
        txt = open(os.path.join(THEORIES, "Gen", "GenWire.v")).read()
    except OSError:
        return out
    for m in re.finditer(r"\(\* @fields (\d+) (plain|tlv|opt) (\S+) ext=(\S*) (.*?) ?\*\)", txt):
        fields = []
        for tok in m.group(5).split():
            cond = None
            if tok.startswith("!"):
                # field of an optional tail: present iff every tail field is in the dump
                name, codec = tok[1:].split(":")
                cond = ("!tail", 0)
            elif tok.startswith("?"):
                c, name, codec = tok[1:].split(":")
                fld, mask = c.split("&")
                cond = (fld, int(mask))
            else:
                name, codec = tok.split(":")
            fields.append((name, codec, cond))
        out[int(m.group(1))] = {"kind": m.group(2), "mode": m.group(3), "ext": m.group(4),
                                "fields": fields}
    for t in (CUSTOM_FIRST, CUSTOM_FIRST + 1, 65535):
        out[t] = {"kind": "plain", "mode": "-", "ext": "Data",
                  "fields": [("Data", "FRest", None)]}
    return out


def load_gen_failures():
    """failure codes whose payload layout the translator generated (gen_failures)"""
    try:
        txt = open(os.path.join(THEORIES, "Gen", "GenWire.v")).read()
    except OSError:
        return set()
    m = re.search(r"Definition gen_fdescs : ftable := \[(.*?)\]\.", txt, re.S)
    if m:
        return {int(x) for x in re.findall(r"\((\d+), FD\w+ \w+\)", m.group(1))}
    return {int(x) for x in re.findall(r"\((\d+), fail_\w+\)", txt)}


def failure_model_rows(wrows, codes):
    """onion failure rows whose ACTUAL code (read from the bytes: mutations may
    change it) has a generated layout; rows too short to carry a code are kept
    (both sides must reject)."""
    out = []
    for r in wrows:
        if r["k"] != "fail" or r.get("panic") or r.get("enc_err"):
            continue
        b = bytes.fromhex(r["b"])
        full = r["api"] == "DecodeFailure"
        body = b
        if full:
            if len(b) < 2:
                out.append(r)
                continue
            fl = int.from_bytes(b[:2], "big")
            if len(b) < 2 + fl:
                out.append(r)
                continue
            body = b[2:2 + fl]
        if len(body) < 2:
            out.append(r)
            continue
        code = int.from_bytes(body[:2], "big")
        if code not in codes:
            continue
        if r["ok"] and "reenc" not in r:
            continue
        out.append(dict(r, t=code))
    return out


# message types / failure codes that have a generated description on the registered tree.
# One of them missing from Gen/GenWire.v (or its Encode- and Decode-side descriptions
# differing) means a source edit pushed it out of the translator's fragment: the build breaks
# and its model comparison is gone, so run() searches that type directly (directed_search).
EXPECTED_GENERATED = {1, 2, 16, 17, 18, 19, 32, 33, 34, 35, 36, 38, 39, 40, 41, 115, 128, 130, 131,
                      132, 133, 134, 135, 136, 256, 257, 258, 259, 262, 263, 265, 513, 777,
                      111, 113, 117, 261}
EXPECTED_FAILURES = {17, 18, 19, 21, 23, 4103, 4107, 4108, 4109, 4110, 4116, 8194, 16392, 16393,
                     16394, 16399, 16400, 16406, 24578, 24579, 32769, 49156, 49157, 49158, 49176}


def affected_by_fragment_loss():
    """(message types, failure codes) whose description is missing or asymmetric."""
    try:
        txt = open(os.path.join(THEORIES, "Gen", "GenWire.v")).read()
    except OSError:
        return set(EXPECTED_GENERATED), set(EXPECTED_FAILURES)
    gen = {int(x) for x in re.findall(r"\(\* @fields (\d+) ", txt)}
    name_type = {n: int(t) for n, t in re.findall(r'\("(\w+)", (\d+)\)', txt)}
    fcode = {}
    m = re.search(r"Definition gen_fdescs : ftable := \[(.*?)\]\.", txt, re.S)
    if m:
        for c, n in re.findall(r"\((\d+), FD\w+ fail(?:upd|eof)?_(\w+)\)", m.group(1)):
            fcode[n] = int(c)
    defs = dict(re.findall(r"Definition (\w+) : \w+ := (.*?)\.\s*(?:\(\*.*?\*\))?\n", txt))
    msgs = EXPECTED_GENERATED - gen
    fails = EXPECTED_FAILURES - set(fcode.values())
    if "unsupported_failures" in txt and not m:
        fails = set(EXPECTED_FAILURES)
    for encp, decp, table in (("enc_", "dec_", name_type), ("encmsg_", "msg_", name_type),
                              ("encopt_", "opt_", name_type), ("failenc_", "fail_", fcode),
                              ("failencupd_", "failupd_", fcode), ("failenceof_", "faileof_", fcode)):
        for k, v in defs.items():
            if k.startswith(encp):
                n = k[len(encp):]
                if defs.get(decp + n) is not None and defs[decp + n] != v and n in table:
                    (fails if table is fcode else msgs).add(table[n])
    return msgs, fails


def directed_search(ctx, msgs, fails, report):
    """Re-run the value/byte generators for exactly the affected message types and failure
    codes at 5x volume (other inputs than the first run) under the python round-trip /
    fixpoint predicates.  Returns the number of rows examined."""
    env = {"VERIF_BOOST": "5"}
    if msgs:
        env["VERIF_ONLY"] = ",".join(str(t) for t in sorted(msgs))
    if fails:
        env["VERIF_ONLY_FAIL"] = ",".join(str(t) for t in sorted(fails))
    if not msgs and fails:
        env["VERIF_ONLY"] = "-1"
    rc, tr, out = run_harness(ctx.uid("wiredir"), "lnwire", H_WIRE, "^TestVerifWire$", env=env,
                              timeout=1500)
    rows = read_jsonl(tr)
    for r in rows:
        k = r["k"]
        if k in ("msg", "fail"):
            f, sig = pred_msg(r)
            if f:
                report("C10_fixpoint", dict(r, directed=True), f, sig)
        elif k in ("val", "failval"):
            f = pred_val(r)
            if f:
                report("C10_layout_roundtrip", dict(r, directed=True), f, None)
    return len(rows)


def ordered_fields(desc, fmap):
    """Field values in wire order, or None when a value is missing from the dump."""
    vals = []
    tail = all(n in fmap for n, _, c in desc["fields"] if c is not None and c[0] == "!tail")
    for name, codec, cond in desc["fields"]:
        if cond is not None and cond[0] == "!tail":
            if not tail:
                continue
        elif cond is not None:
            f = fmap.get(cond[0])
            if f is None:
                return None
            if int(f[1]) & cond[1] == 0:
                continue
        f = fmap.get(name)
        if f is None:
            if codec in ("FRest", "FTlvRest", "FVar16", "FFeat", "FAddrs", "FScids") \
                    or codec.startswith("FVar16Max") \
                    or codec.startswith("FArr16"):
                f = ["b", ""]
            else:
                return None
        vals.append(f)
    return vals


SECP_P = 2 ** 256 - 2 ** 32 - 977


def secp_on_curve(w):
    """btcec.ParsePubKey on 33 bytes (independent of the Go code)."""
    if len(w) != 33 or w[0] not in (2, 3):
        return False
    x = int.from_bytes(w[1:], "big")
    if x >= SECP_P:
        return False
    c = (x * x * x + 7) % SECP_P
    return c == 0 or pow(c, (SECP_P - 1) // 2, SECP_P) == 1


def curve_points(b):
    """all 33-byte windows of b that are compressed secp256k1 points (hex)"""
    pts = set()
    for i in range(0, len(b) - 32):
        if b[i] in (2, 3):
            w = b[i:i + 33]
            if secp_on_curve(w):
                pts.add(w.hex())
    return sorted(pts)


def scid_offset(desc):
    """byte offset (message type included) of the FScids field of a layout; None without one"""
    if not any(c == "FScids" for _, c, _ in desc["fields"]):
        return None
    off = 2
    for name, codec, cond in desc["fields"]:
        if codec == "FScids":
            return off
        m = re.fullmatch(r"F(?:Bytes|U)(\d+)", codec)
        if not m or cond is not None:
            raise ValueError("FScids behind a variable-width field: offset unknown")
        off += int(m.group(1))


def prepare_model_rows(wrows, gen):
    """Attach ordered field values / oracle table to the rows of modelled types."""
    out = []
    for r in wrows:
        if r["k"] not in ("msg", "write"):
            continue
        d = gen.get(r["t"])
        if d is None:
            continue
        scid_at = scid_offset(d)
        if scid_at is not None:
            # plain short-channel-id lists only: zlib bodies (encoding byte 1) and values whose
            # ids Encode would sort first are left to the Go-side predicates
            if r["k"] == "write":
                continue
            raw = bytes.fromhex(r.get("b") or "")
            if len(raw) > scid_at + 2 and int.from_bytes(raw[scid_at:scid_at + 2], "big") > 0 \
                    and raw[scid_at + 2] == 1:
                continue
        if r["k"] == "write":
            if d["kind"] != "plain" or "fmap" not in r:
                continue
            f = ordered_fields(d, r["fmap"])
            if f is None:
                continue
            out.append(dict(r, fields=f, model=True))
            continue
        if "b" not in r or len(r["b"]) > 2 * coq_cap(r) or r.get("panic"):
            continue
        if r.get("feat_over"):
            # a feature vector of 8193 bytes with a non-zero top byte: lnd converts the bit
            # index 65536 to FeatureBit (uint16) = 0, i.e. aliases it; the model is faithful
            # only up to the uint16 bit range (8192 bytes).  Predicates only.
            continue
        q = dict(r, model=True)
        if r["ok"]:
            if "fmap" not in r or "reenc" not in r:
                continue
            f = ordered_fields(d, r["fmap"])
            if f is None:
                continue
            q["fields"] = f
        if d["kind"] == "plain" and any(c == "FPoint" for _, c, _ in d["fields"]):
            # ParsePubKey oracle as a table (the Coq curve test costs ~2 s per point)
            q["pts"] = curve_points(bytes.fromhex(r["b"])[2:])
        if d["kind"] in ("tlv", "opt"):
            q["tlvmsg" if d["kind"] == "tlv" else "optmsg"] = True
            q["pts"] = curve_points(bytes.fromhex(r["b"])[2:])
            if r["ok"]:
                e = r["fmap"].get(d["ext"])
                q["extra"] = e[1] if e else ""
        out.append(q)
    return out


# ------------------------------------------------ independent spec (BOLT 1) in python


class NotCanon(Exception):
    pass


def py_bigsize(b, i):
    """BOLT 1 BigSize reader: (value, next index); raises NotCanon / EOFError."""
    if i >= len(b):
        raise EOFError("eof")
    d = b[i]
    if d < 0xfd:
        return d, i + 1
    w, lo = {0xfd: (2, 0xfd), 0xfe: (4, 0x10000), 0xff: (8, 0x100000000)}[d]
    if i + 1 + w > len(b):
        raise EOFError("short")
    v = int.from_bytes(b[i + 1:i + 1 + w], "big")
    if v < lo:
        raise NotCanon("varint")
    return v, i + 1 + w


def py_bigsize_enc(v):
    if v < 0xfd:
        return bytes([v])
    if v <= 0xffff:
        return b"\xfd" + v.to_bytes(2, "big")
    if v <= 0xffffffff:
        return b"\xfe" + v.to_bytes(4, "big")
    return b"\xff" + v.to_bytes(8, "big")


def py_value_ok(kind, n, v):
    if kind == "F":
        return len(v) == n
    if kind == "T":
        return len(v) <= n and (len(v) == 0 or v[0] != 0)
    if kind == "V":
        return True
    if kind == "B":
        return v in (b"\x00", b"\x01")
    if kind == "S":
        try:
            x, j = py_bigsize(v, 0)
        except (EOFError, NotCanon):
            return False
        return j == len(v)
    raise ValueError(kind)


def py_stream(b, known, maxlen, loose_bigsize=False, copyn_quirk=False):
    """Spec: records in strictly increasing type order, minimal BigSize type and
    length, value exactly `length` bytes, length <= maxlen, known records valid
    for their kind.  Returns the record list or None.
    loose_bigsize / copyn_quirk switch on the two understood deviations of the
    code (findings C10-F2 / C10-F3); they are used ONLY to classify a violation
    of the strict spec, never to excuse anything else."""
    kd = {int(t): (k, n) for t, k, n in known}
    recs, i, last = [], 0, -1
    try:
        while i < len(b):
            t, i = py_bigsize(b, i)
            if t <= last:
                return None
            last = t
            l, i = py_bigsize(b, i)
            if l > maxlen:
                return None
            if loose_bigsize and t in kd and kd[t][0] == "S":
                try:
                    _, j = py_bigsize(b, i)
                except EOFError:
                    return None
                recs.append((t, bytes(b[i:j])))
                i = j
                continue
            if copyn_quirk and t not in kd and l >= 1 << 63:
                recs.append((t, b""))
                continue
            if i + l > len(b):
                return None
            v = bytes(b[i:i + l])
            i += l
            if t in kd and not py_value_ok(kd[t][0], kd[t][1], v):
                return None
            recs.append((t, v))
    except (EOFError, NotCanon):
        return None
    return recs


def pred_varread(r):
    b = bytes.fromhex(r["b"])
    fails = []
    try:
        v, j = py_bigsize(b, 0)
        spec = (0, v, len(b) - j)
    except EOFError as e:
        spec = (1 if str(e) == "eof" else 2, 0, None)
    except NotCanon:
        spec = (3, 0, None)
    if r["code"] != spec[0]:
        fails.append("ReadVarInt verdict %d, spec %d" % (r["code"], spec[0]))
    elif spec[0] == 0:
        if int(r["v"]) != spec[1] or r["left"] != spec[2]:
            fails.append("ReadVarInt value/consumed differ from spec")
        # accepted => canonical: re-encoding the value reproduces the consumed prefix
        if py_bigsize_enc(int(r["v"])) != b[:len(b) - r["left"]]:
            fails.append("accepted a non-minimal BigSize")
    return fails


def pred_varwrite(r):
    v = int(r["v"])
    out = bytes.fromhex(r["out"])
    fails = []
    if out != py_bigsize_enc(v):
        fails.append("WriteVarInt(%d) = %s" % (v, r["out"]))
    if r.get("size") is not None and r["size"] != len(out):
        fails.append("VarIntSize(%d) = %d but %d bytes written" % (v, r["size"], len(out)))
    return fails


def pred_stream(r):
    """Returns (fails, known_signature or None)."""
    b = bytes.fromhex(r["b"])
    if r["code"] == 100:
        return ["decoder panicked"], None
    if r["code"] != r["code2"]:
        return ["Decode and DecodeWithParsedTypes disagree: %d vs %d" % (r["code2"], r["code"])], None
    maxlen = 65535 if r["p2p"] else U64
    spec = py_stream(b, r["known"], maxlen)
    acc = r["code"] == 0
    fails = []
    sig = None
    if acc and spec is None:
        fails.append("accepted a non-canonical stream")
        # classify the two understood deviations of the code from the spec
        if not r["p2p"] and py_stream(b, r["known"], maxlen, copyn_quirk=True) is not None:
            sig = SIG_COPYN
        elif py_stream(b, r["known"], maxlen, loose_bigsize=True) is not None:
            sig = SIG_BIGSIZE
        elif not r["p2p"] and py_stream(b, r["known"], maxlen, True, True) is not None:
            sig = SIG_BIGSIZE
    if not acc and spec is not None:
        fails.append("rejected a canonical stream (code %d)" % r["code"])
    if acc and r["full"]:
        recs = [(int(t), bytes.fromhex(v)) for t, v in r["recs"]]
        if any(recs[i][0] >= recs[i + 1][0] for i in range(len(recs) - 1)):
            fails.append("decoded types not strictly increasing")
        if r["reenc"] == "ERR" or bytes.fromhex(r["reenc"]) != b:
            if not fails:
                fails.append("decode-then-encode does not reproduce the input")
        if spec is not None and recs != spec:
            fails.append("decoded records differ from the spec parse")
    return fails, sig


# ------------------------------------------------------------------ lnwire predicates


def pred_msg(r):
    """ReadMessage on arbitrary bytes: no panic, bounded, fixpoint, size."""
    fails = []
    if r.get("panic"):
        return ["%s panicked: %s" % (r.get("api", "ReadMessage"), r["panic"])], None
    if r.get("ms", 0) > 5000:
        fails.append("decode took %d ms" % r["ms"])
    if not r["ok"]:
        return fails, None
    sig = None
    if r.get("nids", 0) > MAX_SCIDS:
        fails.append("decoded %d short channel ids from one message (bound %d)"
                     % (r["nids"], MAX_SCIDS))
    if r.get("enc_err"):
        if not r.get("enc_err_allowed"):
            fails.append("decoded message does not re-encode: %s" % r["enc_err"])
        return fails, None
    if r["len1"] > 65535:
        fails.append("re-encoding is %d bytes" % r["len1"])
    if not r.get("dec2_ok"):
        fails.append("re-encoding does not decode: %s" % r.get("dec2_err"))
        return fails, None
    if not r.get("equal"):
        fails.append("decode(encode(m)) differs from m: %s" % r.get("diff", ""))
    if not r.get("enc2_same"):
        fails.append("second re-encoding is not byte-identical")
    if r.get("lost_unknown"):
        fails.append("unknown odd TLV record %s lost on re-encode" % r["lost_unknown"])
        if r["t"] in DROP_TYPES and len(fails) == 1:
            sig = SIG_DROP
    return fails, sig


def pred_val(r):
    """generated value -> WriteMessage -> ReadMessage -> equal + identical bytes"""
    fails = []
    if r.get("panic"):
        return ["panicked: %s" % r["panic"]]
    if not r["ok"]:
        if not r.get("too_large"):
            fails.append("WriteMessage failed on a generated value: %s" % r.get("err"))
        return fails
    if r["len"] > 65535:
        fails.append("encoded to %d bytes" % r["len"])
    if not r.get("dec_ok"):
        fails.append("encoding does not decode: %s" % r.get("dec_err"))
        return fails
    if not r.get("equal"):
        fails.append("decoded value differs: %s" % r.get("diff", ""))
    if not r.get("enc2_same"):
        fails.append("re-encoding is not byte-identical")
    return fails


# ------------------------------------------------------------------ run


def run(ctx):
    import time
    t0 = time.time()
    stage = {}
    pr = ctx.proof_stage(MODULE, THEOREMS, TARGETS, extra_trusted=[
        "on_curve (btcec.ParsePubKey verdict) is a Section variable: layout theorems hold for "
        "any oracle; no hypothesis is placed on it",
        "python spec parser for BOLT-1 BigSize/TLV (props/c10.py) used as the independent "
        "predicate on the implementation trace",
        "translator /verif/translate/gen_wire.go (lnwire Encode/Decode -> Gen/GenWire.v layouts, "
        "known records, Repack/Merge); its tables of element codecs and record decoders are tied "
        "per run by the byte-exact comparison of verdict, fields and re-encoded bytes",
        "python secp256k1 point test (props/c10.py secp_on_curve) supplies the ParsePubKey oracle "
        "table of each TLV-message case"])
    stage["proof"] = round(time.time() - t0, 1)
    env = {}
    rc1, tr1, out1 = run_harness(ctx.uid("tlv"), "tlv", H_TLV, "^TestVerifTlv$", env=env,
                                 moddir="tlv", timeout=1200)
    rows = read_jsonl(tr1)
    if rc1 != 0 or not rows:
        ctx.violation("harness_failed", "TestVerifTlv", {"log": out1[-4000:]},
                      signature="harness", failing_input=False)
        return
    stage["tlv_harness"] = round(time.time() - t0, 1)
    rc2, tr2, out2 = run_harness(ctx.uid("wire"), "lnwire", H_WIRE, "^TestVerifWire$", env=env,
                                 timeout=1500)
    stage["wire_harness"] = round(time.time() - t0, 1)
    wrows = read_jsonl(tr2)
    if rc2 != 0 or not wrows:
        ctx.violation("harness_failed", "TestVerifWire", {"log": out2[-4000:]},
                      signature="harness", failing_input=False)
        return

    race_rows = []
    if ctx.thorough:
        # the retention streams again under the race detector (8 goroutines, disjoint streams)
        for uid, pkg, files, test, kw in (("tlvrace", "tlv", H_TLV, "^TestVerifTlv$", {"moddir": "tlv"}),
                                          ("wirerace", "lnwire", H_WIRE, "^TestVerifWire$", {})):
            rcr, trr, outr = run_harness(ctx.uid(uid), pkg, files, test, env={"VERIF_RETAIN_ONLY": "1"},
                                         timeout=2400, race=True, **kw)
            rr = [r for r in read_jsonl(trr) if r["k"] in ("retain", "retain_sum")]
            race_rows += rr
            if rcr != 0 or not rr:
                ctx.violation("impl_violates_predicate" if "DATA RACE" in outr else "harness_failed",
                              "C10_fixpoint (purity of the real codec: -race retention run)",
                              {"log": outr[-6000:]}, signature="C10 data race / race run " + pkg,
                              failing_input=False)

    hist = collections.Counter()
    nviol = collections.Counter()

    def report(theorem, r, fails, sig):
        key = sig or fails[0].split(":")[0][:40]
        nviol[key] += 1
        if nviol[key] > 2:
            return
        small = {k: (v if not isinstance(v, str) or len(v) < 4000 or (r["k"] == "retain" and k == "b")
                     else v[:4000] + "…")
                 for k, v in r.items()}
        ctx.violation("impl_violates_predicate", theorem, {"case": small, "fails": fails},
                      signature=sig or ("C10 %s %s" % (r["k"], fails[0])))

    # ---- predicates on the implementation trace ----
    for r in rows:
        k = r["k"]
        if k == "varread":
            hist["varread:%s:%d" % (r["mut"], r["code"])] += 1
            f = pred_varread(r)
            if f:
                report("C10_bigsize_canonical", r, f, None)
        elif k == "varwrite":
            hist["varwrite"] += 1
            f = pred_varwrite(r)
            if f:
                report("C10_bigsize_roundtrip", r, f, None)
        elif k == "retain":
            report("C10_tlv_decode_encode_id", r,
                   ["%s (tlv %s stream): %s" % (r["kind"], r["stream"], r.get("detail", ""))], None)
        elif k == "retain_sum":
            pass
        else:
            hist["stream:%s:%s:%d" % ("p2p" if r["p2p"] else "nonp2p", r["mut"], r["code"])] += 1
            f, sig = pred_stream(r)
            if f:
                report("C10_tlv_accept_iff_canonical", r, f, sig)
    whist = collections.Counter()
    for r in wrows:
        k = r["k"]
        if k in ("msg", "fail"):
            whist["%s:%s:%s" % (k, r.get("mut"), "ok" if r["ok"] else "err")] += 1
            f, sig = pred_msg(r)
            if f:
                report("C10_fixpoint", r, f, sig)
        elif k in ("val", "failval"):
            whist["%s:%s:%s" % (k, r.get("mut", "gen"), "ok" if r["ok"] else "err")] += 1
            f = pred_val(r)
            if f:
                report("C10_layout_roundtrip", r, f, None)
        elif k == "retain":
            # purity of the real codec (the Coq model is a pure function: this is tested, not
            # proved): victim `b`, the later inputs after which it changed in `culprits`
            report("C10_fixpoint", r, ["%s (%s stream): %s" % (r["kind"], r["stream"], r.get("detail", ""))],
                   None)

    for r in race_rows:
        if r["k"] == "retain":
            report("C10_fixpoint", r, ["%s (%s stream, -race run): %s" % (r["kind"], r["stream"],
                                                                        r.get("detail", ""))], None)

    # ---- correspondence: the model evaluated on the same inputs ----
    gen = load_gen_fields()
    mrows = prepare_model_rows(wrows, gen)
    crow = [r for r in rows if len(r.get("b", "")) <= 2 * MAX_COQ_BYTES
            and r["k"] not in ("retain", "retain_sum")]
    crow += [r for r in mrows
             if len(r.get("b", "") or r.get("out", "")) <= 2 * coq_cap(r)]
    frows = failure_model_rows(wrows, load_gen_failures())
    if not ctx.thorough and len(frows) > 1200:
        # quick tier: an evenly spread sample (all rows are predicate-checked above)
        step = len(frows) / 1200.0
        frows = [frows[int(i * step)] for i in range(1200)]
    crow += frows
    terms = [t_case(r) for r in crow]
    stage["predicates"] = round(time.time() - t0, 1)
    ok, bad, logs = coq_mismatches(ctx.uid(), IMPORTS, terms,
                                   shard=max(20, len(terms) // NCPU + 1))
    stage["model_eval"] = round(time.time() - t0, 1)
    if not ok:
        ctx.violation("correspondence_mismatch", "Wire.Exec (model evaluation failed)",
                      {"logs": logs}, signature="model-eval", failing_input=False)
    for ci, which in bad[:4]:
        r = crow[ci]
        ctx.violation("correspondence_mismatch", "Wire.Exec.check",
                      {"case": r, "failed_checks": which,
                       "legend": "1/2 ReadVarInt, 3 WriteVarInt, 4 stream verdict/records, "
                                 "5 stream re-encode, 6 ReadMessage verdict/fields, "
                                 "7 message re-encode, 8 WriteMessage, 9 TLV-message "
                                 "verdict/fields, 10 ExtraData field, 11 TLV-message re-encode, "
                                 "12 failure verdict/code, 13 failure re-encode"},
                      signature="C10 mismatch %s check%s" % (r["k"], which))
    directed = None
    if not pr["ok"] and not ctx.violations:
        # nothing concrete so far: if the break is a message / failure code that fell out of
        # the translator's fragment (or became asymmetric), search exactly those types
        amsgs, afails = affected_by_fragment_loss()
        if amsgs or afails:
            n = directed_search(ctx, amsgs, afails, report)
            directed = {"message_types": sorted(amsgs), "failure_codes": sorted(afails),
                        "rows": n}
    if not pr["ok"] and not ctx.violations:
        ctx.violation("proof_broken", ", ".join(pr["broken"]) or "Wire build",
                      {"log": pr["log"][-4000:], "directed_search": directed},
                      signature="proof", failing_input=False)

    if ctx.thorough:
        ctx.coqchk(["LV.Wire.Props"])

    types = sorted({r["t"] for r in wrows if r["k"] in ("msg", "val")})
    ctx.cov.update({
        "evaluations": len(rows) + len(wrows) + sum(r["cases"] for r in wrows if r["k"] == "sweep"),
        "distinct_nontrivial": distinct_count(
            [r for r in rows + wrows if len(r.get("b", "") or r.get("out", "")) > 4],
            lambda r: (r["k"], r.get("b") or r.get("out"), r.get("p2p"), str(r.get("known")))),
        "rule": "tlv: BigSize boundary values x forced widths x truncations, structure-aware "
                "streams (valid / non-minimal / swapped / duplicate / truncated / wrong length / "
                "oversize / known-record violations / random); lnwire: generated values per "
                "registered type, and mutated/truncated/extended/random byte strings per type "
                "and per onion failure code; non-trivial = input longer than 2 bytes; distinct "
                "by (api, input bytes, stream config)",
        "traces_validated_against_impl": len(rows) + len(wrows),
        "model_checked_cases": len(terms),
        "tlv_cases": dict(hist), "wire_cases": dict(whist),
        "message_types_exercised": len(types),
        "message_types": types,
        "layout_modelled_types": sorted({r["t"] for r in mrows}),
        "layout_modelled_cases": len(mrows),
        "tlv_message_cases": sum(1 for r in mrows if r.get("tlvmsg") or r.get("optmsg")),
        "failure_model_cases": len(frows),
        "feature_boundary_rows": sum(1 for r in wrows if str(r.get("mut", "")).startswith("feat")),
        "feature_boundary_model_cases": sum(1 for r in mrows
                                            if str(r.get("mut", "")).startswith("feat")),
        "failure_codes_modelled": sorted(load_gen_failures()),
        "generated_layout_types": sorted(t for t in gen if t < CUSTOM_FIRST),
        "samples": [rows[0], {k: v for k, v in wrows[0].items() if k != "b"}],
        "correspondence_mismatches": len(bad),
        "directed_search": directed,
        "retention": [r for r in rows + wrows if r["k"] == "retain_sum"],
        "retention_race_run": [r for r in race_rows if r["k"] == "retain_sum"],
        "sweep_cases": {str(r["t"]): [r["rec"], r["fix"], r["val"], r["accepted"], r["bad"]]
                        for r in wrows if r["k"] == "sweep"},
        "sweep_total": {k: sum(r[k] for r in wrows if r["k"] == "sweep")
                        for k in ("cases", "rec", "fix", "val", "accepted", "bad", "emitted")},
        "sweep_rule": "per message type: every TLV record of the valid encodings (each (type,len) once "
                      "in quick) over its value domain (1-byte exhaustive; integers 0..260, 2^k, 2^k+-1, "
                      "all-ones, 999..1001, x+-1, also as BigSize; long values bitwise at the ends, zero, "
                      "ones; removed; emptied), every fixed-part byte (bit flips, 0, ff, +-1; thorough all "
                      "256), and value->bytes with every unsigned field of a generated value over the full "
                      "domain of its Go type; each case b->m1->b2->m2->b3 with m1==m2 (deep) and b2==b3; "
                      "[rec, fix, val, accepted, failing] per type",
        "stage_seconds_cumulative": stage,
        "predicate_failures": dict(nviol),
    })
    ctx.assumptions += [
        "byte strings are lists of N with every element < 256 (wf_bytes) in all theorems",
        "heap allocation, panics, zlib decoding and wall time are observed on the Go side only",
        "known-record lookup in Stream.decode (moving index over sorted records) is modelled as "
        "an association-list lookup; tied by the differential run",
    ]
