"""C12 — goes on chain before HTLC deadlines; every HTLC disposed of once."""
import json
import os
import threading
import time

from lib.verif import *
from props import chan_common as cc
from props import chan_model as cm

THEOREMS = [
    "C12_deadline", "C12_deadline_blocks", "C12_no_spurious", "C12_no_spurious_received",
    "C12_classification_total_direct", "C12_classification_total_refuted",
    "C12_classification_partial_broadcast", "C12_classification_total_fixed",
    "C12_no_failback_with_output", "C12_breach_all_failed",
    # C12b: shape hypotheses derived from the channel state machine (Arb/Shape.v)
    "C12_shape_reachable", "C12_shape_reachable_resync", "C12_shape_pending_guard_needed",
    "C12_shape_dust_disagreement_reachable",
    "C12_classification_total_direct_reachable",
    "C12_classification_partial_broadcast_reachable",
    "C12_classification_total_fixed_reachable",
    "C12_no_failback_with_output_reachable",
    # event loop (channelAttendant) around the decision (Arb/Attendant*.v)
    "C12_loop_grace_reference", "C12_loop_deadline", "C12_loop_no_spurious",
]
MODULE = "LV.Arb.ActionsProps"
TARGETS = ["theories/Arb/ActionsProps.vo", "theories/Arb/ActionsExec.vo",
           "theories/Arb/ActionsExamples.vo", "theories/Arb/ShapeExamples.vo",
           "theories/Arb/AttendantExec.vo", "theories/Arb/AttendantExamples.vo"]
HARNESS = ["contractcourt/verif_actions_test.go", "contractcourt/verif_attendant_test.go"]
WARM = [{"pkg": "contractcourt", "files": HARNESS}] + cc.WARM
IMPORTS = ("From Coq Require Import List NArith ZArith Bool.\nImport ListNotations.\n"
           "From LV Require Import Arb.ActionsModel Arb.ActionsExec.\n")

IMPORTS_ATT = ("From Coq Require Import List NArith ZArith Bool.\nImport ListNotations.\n"
               "From LV Require Import Arb.ActionsModel Arb.ActionsExec Arb.AttendantModel "
               "Arb.AttendantExec.\n")

KNOWN_SIG = "faildust-not-consumed-after-broadcast"

# ---------------------------------------------------------------- Coq terms


def nN(n):
    """cN with a guard: a negative value would print as `-1%N`, which Coq parses as a
    subtraction applied to the preceding term (ill-typed case file, not a verdict)."""
    n = int(n)
    if n < 0:
        raise ValueError("negative value %d for an N-typed field" % n)
    return cN(n)


def t_htlc(h):
    if len(h) != 5:
        raise ValueError("htlc record with %d fields: %r" % (len(h), h))
    return "(mkHtlc %s %s %s %s %s)" % (nN(h[0]), cbool(h[1]), cZ(h[2]), nN(h[3]), nN(h[4]))


def t_sets(s):
    return "(mkSets %s %s %s)" % (clist([t_htlc(h) for h in s["l"]]),
                                  clist([t_htlc(h) for h in s["r"]]),
                                  clist([t_htlc(h) for h in (s["p"] if s["hasp"] else [])]))


def t_obs(o):
    return "(mkObs %s %s %s %s %s %s)" % (
        cN(o["state"]), cN(o["fc"]), clist([cN(x) for x in o["fail"]]),
        clist([cN(x) for x in o["final"]]),
        clist(["(%s, %s)" % (cN(k), cN(i)) for k, i in o["resolvers"]]), cN(o["resolved"]))


KIND = {"local": "KLocal", "remote": "KRemote", "pending": "KPending",
        "breach": "KBreach", "coop": "KCoop"}


def t_case(c):
    e = c["env"]
    env = "(mk_env %s %s %s %s %s %s %s)" % (
        cN(e["ind"]), cN(e["outd"]), clist([cN(x) for x in e["fwd"]]),
        cZ(e["uptime"]), cZ(e["grace"]), clist([cN(x) for x in e["cache"]]),
        clist(["(%s, %s)" % (cN(h), cbool(p)) for h, p in e["inv"]]))
    ops = []
    for op, ob in zip(c["ops"], c["obs"]):
        if op["op"] == "block":
            ops.append("EBlock %s %s" % (cN(op["h"]), t_obs(ob)))
        elif op["op"] == "user":
            ops.append("EUser %s %s" % (cN(op["h"]), t_obs(ob)))
        else:
            r = op.get("res") or {"in": [], "out": [], "commit": False, "anchor": False}
            res = "(mkRes false %s %s %s %s)" % (
                cbool(r["anchor"]), cbool(r["commit"]),
                clist([cZ(x) for x in r["in"]]), clist([cZ(x) for x in r["out"]]))
            ops.append("EClose %s %s %s %s %s" % (KIND[op["kind"]], cN(op["h"]),
                                                 t_sets(op["cs"]), res, t_obs(ob)))
    return "(mkCase %s %s %s)" % (env, t_sets(c["active"]), clist(ops))


# ------------------------------------------- predicate on the implementation
# Independent of the Coq model: written from the property text.

U32 = 1 << 32
CLOSED = (2, 3, 4)


def _known(env, hashid):
    return hashid in env["cache"] or any(h == hashid and p for h, p in env["inv"])


def _must_go(env, h, height):
    """The property's deadline rule for one HTLC of OUR commitment
    (no uint32 underflow of the cut-off, see guard in C12_deadline)."""
    idx, inc, _out, expiry, hashid = h
    delta = env["ind"] if inc else env["outd"]
    if expiry < delta or height < expiry - delta:
        return False
    if inc:
        return _known(env, hashid)
    return idx in env["fwd"] or env["uptime"] > env["grace"]


def _may_go(env, c, height):
    """Is there ANY HTLC that justifies going on chain at this height?
    (offered HTLC at its cut-off on any commitment, or received+claimable)."""
    sets = c["active"]
    pend = sets["p"] if sets["hasp"] else []
    for h in sets["l"] + sets["r"] + pend:
        idx, inc, _out, expiry, hashid = h
        delta = env["ind"] if inc else env["outd"]
        cutoff = (expiry - delta) % U32
        if height < cutoff:
            continue
        if not inc:
            # offered: the node acts only for forwarded HTLCs, or for its own
            # payments once the start-up grace period has passed; an HTLC that
            # is not on our commitment and can be settled is left alone
            if not (idx in env["fwd"] or env["uptime"] > env["grace"]):
                continue
            if h not in sets["l"] and idx not in {x[0] for x in sets["l"] if not x[1]} \
                    and _known(env, hashid):
                continue
            return True
        if _known(env, hashid) and h in sets["l"]:
            return True
    return False


def predicate(c):
    """Returns list of (theorem, signature, message)."""
    fails = []
    env = c["env"]
    state = 0
    broadcast = False
    failed_total = {}
    for i, (op, ob) in enumerate(zip(c["ops"], c["obs"])):
        if any(x < 0 for x in ob["fail"]) or any(x < 0 for x in ob["final"]):
            fails.append(("C12_no_failback_with_output", "unexpected-settle",
                          "op %d: settle message / settled final outcome from the arbitrator" % i))
        if ob.get("err"):
            fails.append(("C12_classification_total", "arb-error", "op %d: %s" % (i, ob["err"])))
        if op["op"] == "block" and state == 0:
            must = [h for h in c["active"]["l"] if _must_go(env, h, op["h"])]
            if must and ob["fc"] != 1:
                fails.append(("C12_deadline", "deadline-missed",
                              "op %d: block %d reaches the cut-off of htlc %s but no force close"
                              % (i, op["h"], must[0])))
            if ob["fc"] and not _may_go(env, c, op["h"]):
                fails.append(("C12_no_spurious", "spurious-force-close",
                              "op %d: force close at block %d without any HTLC at its cut-off"
                              % (i, op["h"])))
        if ob["fc"] > 1 or (ob["fc"] and broadcast):
            fails.append(("C12_deadline", "double-force-close", "op %d" % i))
        if op["op"] == "user" and state == 0 and ob["fc"] != 1:
            fails.append(("C12_deadline", "user-close-ignored", "op %d" % i))
        if ob["fc"]:
            broadcast = True
        for x in ob["fail"]:
            failed_total[x] = failed_total.get(x, 0) + 1
        if op["op"] == "close" and state not in CLOSED and op["kind"] in ("local", "remote", "pending"):
            fails += _classification(c, i, op, ob, failed_total, broadcast)
        if op["op"] == "close" and op["kind"] == "breach" and state not in CLOSED:
            cs = op["cs"]
            for h in cs["r"] + (cs["p"] if cs["hasp"] else []):
                if not h[1] and failed_total.get(h[0], 0) < 1:
                    fails.append(("C12_breach_all_failed", "breach-not-failed",
                                  "op %d: offered htlc %d not failed back after breach" % (i, h[0])))
            if any(k not in (5, 6) for k, _ in ob["resolvers"]):
                fails.append(("C12_breach_all_failed", "breach-htlc-resolver", "op %d" % i))
        state = ob["state"]
    return fails


def _classification(c, i, op, ob, failed_total, broadcast):
    """Disposal of every HTLC once a commitment is confirmed (property text)."""
    fails = []
    env = c["env"]
    cs = op["cs"]
    pend = cs["p"] if cs["hasp"] else []
    conf = {"local": cs["l"], "remote": cs["r"], "pending": pend}[op["kind"]]
    res = op["res"]
    same_sets = json.dumps(cs, sort_keys=True) == json.dumps(c["active"], sort_keys=True)
    conf_out_idx = {h[0] for h in conf if not h[1]}
    local_out_idx = {h[0] for h in cs["l"] if not h[1]}
    # protocol shape for offered HTLCs (DESIGN C12): ours is the last to get
    # an HTLC and the first to lose it.
    shape = all((h[0] in {x[0] for x in cs["r"] if not x[1]}) and
                (not cs["hasp"] or h[0] in {x[0] for x in pend if not x[1]})
                for h in cs["l"] if not h[1])
    if ob["state"] == 4 and not conf and not (res["in"] or res["out"] or res["commit"] or res["anchor"]) \
            and not cs["l"] and not cs["r"] and not pend:
        return fails
    out_kinds = {1: 0, 4: 0}
    for h in conf:
        idx, inc, out, _exp, hashid = h
        if out >= 0:
            have_res = out in (res["in"] if inc else res["out"])
            want = (2, 3) if inc else (1, 4)
            n = sum(1 for k, j in ob["resolvers"] if j == idx and k in want)
            if have_res and n != 1:
                fails.append(("C12_classification_total", "resolver-count",
                              "op %d: htlc %s with an output on the confirmed commitment has %d resolvers"
                              % (i, h, n)))
            if not inc and ob["fail"].count(idx):
                fails.append(("C12_no_failback_with_output", "failback-with-output",
                              "op %d: fail-back for offered htlc %s that has an output on the "
                              "confirmed commitment" % (i, h)))
        elif inc:
            if ob["final"].count(idx) != 1:
                fails.append(("C12_classification_total", "incoming-dust-final",
                              "op %d: received dust htlc %s closed out %d times"
                              % (i, h, ob["final"].count(idx))))
        else:
            n = failed_total.get(idx, 0)
            if n == 0 and shape:
                sig = "offered-dust-never-failed"
                if broadcast and _not_due_at_broadcast(c, h):
                    sig = KNOWN_SIG + " dust-on-confirmed conf=%s" % op["kind"]
                fails.append(("C12_classification_total", sig,
                              "op %d: offered htlc %s is dust on the confirmed %s commitment and "
                              "was never failed back" % (i, h, op["kind"])))
            if n > 2:
                fails.append(("C12_classification_total", "failback-duplicate",
                              "op %d: offered dust htlc %s failed back %d times" % (i, h, n)))
    # offered HTLCs that exist only on a non-confirmed commitment
    seen = set()
    for h in cs["l"] + cs["r"] + pend:
        idx, inc, out, _exp, hashid = h
        if inc or idx in conf_out_idx or idx in seen:
            continue
        seen.add(idx)
        if _known(env, hashid):
            continue
        if op["kind"] != "local" and idx in local_out_idx:
            continue            # outside the protocol shape: not claimed
        if not shape:
            continue
        n = failed_total.get(idx, 0)
        if n == 0:
            sig = "dangling-never-failed"
            if broadcast and out < 0 and _not_due_at_broadcast(c, h):
                sig = KNOWN_SIG + " dust-dangling conf=%s" % op["kind"]
            fails.append(("C12_classification_total", sig,
                          "op %d: offered htlc %s exists only on a non-confirmed commitment and "
                          "was never failed back (%s confirmed)" % (i, h, op["kind"])))
        if n > 2:
            fails.append(("C12_classification_total", "failback-duplicate",
                          "op %d: dangling htlc %s failed back %d times" % (i, h, n)))
    return fails


def _not_due_at_broadcast(c, h):
    """The known-finding class (DESIGN 7-a): the HTLC was NOT one of those the
    node cancels back when it decides to broadcast (dust on OUR commitment, or
    absent from ours, dust on theirs and already at its cut-off), so its only
    chance was the HtlcFailDustAction entry computed after confirmation, which
    StateContractClosed does not consume."""
    env = c["env"]
    idx = h[0]
    bop = next(((op, ob) for op, ob in zip(c["ops"], c["obs"]) if ob["fc"]), None)
    if bop is None:
        return False
    op, ob = bop
    for l in c["active"]["l"]:
        if not l[1] and l[0] == idx:
            if l[2] >= 0:
                return True       # has an output on ours
            # dust on ours: cancelled at broadcast iff our own commitment was
            # classified then (user request, or an HTLC of OUR commitment at
            # its cut-off; a chain trigger fired only by an HTLC dangling on
            # the peer's commitment skips that classification)
            if op["op"] == "user":
                return False
            return not any(_local_deadline(env, x, op["h"]) for x in c["active"]["l"])
    # absent from ours: cancelled at broadcast only if at its cut-off then
    cutoff = (h[3] - env["outd"]) % U32
    due = (op["h"] >= cutoff and (idx in env["fwd"] or env["uptime"] > env["grace"])
           and not _known(env, h[4]))      # a dangling HTLC we can settle is left alone
    return not due


def _local_deadline(env, h, height):
    idx, inc, _out, expiry, hashid = h
    delta = env["ind"] if inc else env["outd"]
    if height < (expiry - delta) % U32:
        return False
    if inc:
        return _known(env, hashid)
    return idx in env["fwd"] or env["uptime"] > env["grace"]



# ------------------------------------------------ event loop (channelAttendant)
# Histories on the RUNNING arbitrator (harness/contractcourt/verif_attendant_test.go):
# start/restart, contract signals, commitment updates from the link, clock ticks,
# blockbeats, user requests.

CKEY = {"l": "CLocal", "r": "CRemote", "p": "CPending"}


def t_lev(op):
    k = op["op"]
    if k == "start":
        return "AStart %s" % nN(op["h"])
    if k == "signal":
        return "ASignal"
    if k == "upd":
        return "AUpdate %s %s" % (CKEY[op["key"]], clist([t_htlc(h) for h in op["hs"] or []]))
    if k == "tick":
        return "ATick %s" % cZ(op["dt"])
    if k == "block":
        return "ABlock %s" % nN(op["h"])
    if k == "user":
        return "AUser"
    raise ValueError(k)


def t_lcase(c):
    e = c["env"]
    env = "(mk_env %s %s %s %s %s %s %s)" % (
        cN(e["ind"]), cN(e["outd"]), clist([cN(x) for x in e["fwd"]]),
        cZ(0), cZ(e["grace"]), clist([cN(x) for x in e["cache"]]),
        clist(["(%s, %s)" % (cN(h), cbool(p)) for h, p in e["inv"]]))
    ops = ["LOp (%s) %s %s %s" % (t_lev(op), t_obs(ob), cZ(ob["ref"]), cZ(ob["now"]))
           for op, ob in zip(c["ops"], c["obs"])]
    return "(mkLCase %s %s %s)" % (env, t_sets(c["active"]), clist(ops))


def loop_walk(c):
    """The specification's view of a history, independent of the model: yields per
    operation (i, op, ob, state_before, sets, now, ref, last) where `ref` is the
    time of the last (re)start of the arbitrator -- the ONLY reference of the
    start-up grace period the property knows -- and last[kind] the time of the
    last event of every other kind."""
    sets = {"l": list(c["active"]["l"]), "r": list(c["active"]["r"]),
            "p": list(c["active"]["p"]), "hasp": bool(c["active"]["hasp"])}
    now, ref, state, last = 0, None, 0, {}
    for i, (op, ob) in enumerate(zip(c["ops"], c["obs"])):
        k = op["op"]
        if k == "tick":
            now += op["dt"]
        elif k == "start":
            ref = now
        elif k == "upd":
            sets = dict(sets)
            sets[op["key"]] = list(op["hs"] or [])
            if op["key"] == "p":
                sets["hasp"] = True
        yield i, op, ob, state, sets, now, ref, dict(last)
        if k not in ("tick", "start"):
            last[k] = now
        state = ob["state"]


def loop_predicate(c):
    """Property text on the running arbitrator: returns [(theorem, signature, message)]."""
    fails = []
    broadcast = False
    for i, op, ob, state, sets, now, ref, _last in loop_walk(c):
        k = op["op"]
        env = dict(c["env"])
        env["uptime"] = now - (ref if ref is not None else now)
        if ob.get("err"):
            fails.append(("C12_loop_deadline", "arb-error loop", "op %d: %s" % (i, ob["err"])))
        if ob["ref"] != ref:
            fails.append(("C12_loop_grace_reference", "grace-reference-moved by=%s" % k,
                          "op %d (%s): the arbitrator's grace reference (startTimestamp) is "
                          "t0+%ds, the arbitrator was last started at t0+%ss"
                          % (i, k, ob["ref"], ref)))
        if k in ("block", "start") and state == 0:
            h = op["h"]
            must = [x for x in sets["l"] if _must_go(env, x, h)]
            if must and ob["fc"] != 1:
                fails.append(("C12_loop_deadline", "deadline-missed loop",
                              "op %d: %s at height %d, %d s after the arbitrator's start (grace "
                              "%d s), reaches the cut-off of htlc %s but no force close"
                              % (i, k, h, env["uptime"], env["grace"], must[0])))
            if ob["fc"] and not _may_go(env, {"active": sets}, h):
                fails.append(("C12_loop_no_spurious", "spurious-force-close loop",
                              "op %d: force close at %s %d, %d s after start (grace %d s), "
                              "without any HTLC at its cut-off"
                              % (i, k, h, env["uptime"], env["grace"])))
        if k == "user" and state == 0 and ob["fc"] != 1:
            fails.append(("C12_loop_deadline", "user-close-ignored loop", "op %d" % i))
        if k in ("tick", "signal", "upd") and (ob["fc"] or ob["fail"] or ob["final"] or
                                                ob["resolvers"] or ob["state"] != state):
            fails.append(("C12_loop_no_spurious", "event-side-effect %s" % k,
                          "op %d: a %s event changed state %d -> %d / fc=%d fail=%s"
                          % (i, k, state, ob["state"], ob["fc"], ob["fail"])))
        if ob["fc"] > 1 or (ob["fc"] and broadcast):
            fails.append(("C12_loop_deadline", "double-force-close loop", "op %d" % i))
        if ob["fc"]:
            broadcast = True
    return fails


def loop_stats(lrows):
    """Histograms of the event-loop stage; `discriminating` counts the decisions
    whose required outcome (force close or not) would be different had the grace
    reference been moved by the last event of that kind."""
    ev, kinds, disc = {}, {}, {}
    decisions = fcs = 0
    for c in lrows:
        kinds[c["kind"]] = kinds.get(c["kind"], 0) + 1
        for i, op, ob, state, sets, now, ref, last in loop_walk(c):
            k = op["op"]
            if k == "start" and i > 0:
                k = "restart"
            ev[k] = ev.get(k, 0) + 1
            fcs += ob["fc"]
            if op["op"] in ("block", "start") and state == 0:
                decisions += 1
                env = dict(c["env"])
                env["uptime"] = now - ref
                want = any(_must_go(env, x, op["h"]) for x in sets["l"])
                for lk, t in last.items():
                    if t <= ref:
                        continue
                    env2 = dict(env)
                    env2["uptime"] = now - t
                    if any(_must_go(env2, x, op["h"]) for x in sets["l"]) != want:
                        disc[lk] = disc.get(lk, 0) + 1
    return {"histories": len(lrows), "history_kinds": kinds, "events": ev,
            "decisions_in_default_state": decisions, "force_closes": fcs,
            "discriminating_decisions_by_last_event": disc}


# ------------------------------------------------ C12b: shape of the HTLC sets
# The classification theorems are stated for HTLC sets with unique indexes in
# which every offered HTLC of our commitment is also on the peer's current and
# pending commitment.  Arb/Shape.v PROVES that for every reachable state of the
# channel model (C12_shape_reachable); here the same predicate — written from
# the definition of `shape`, independent of the model — is evaluated on every
# party dump of real LightningChannel schedules (what chain_watcher would hand
# to the arbitrator at that moment: ltail = LocalCommitment, rtail =
# RemoteCommitment, rtip = the pending remote commitment).


def _dir_idx(commit, incoming):
    return [h[2] for h in commit["htlcs"] if bool(h[0]) == incoming]


def shape_fails(d):
    """[failure strings] of one party dump; htlc = [incoming, amt, idx, expiry, hash, on_tx]."""
    fails = []
    sets = [("local", d["ltail"]), ("remote", d["rtail"])]
    if d.get("rtip") is not None:
        sets.append(("pending", d["rtip"]))
    # wf: indexes unique per commitment and direction
    for name, k in sets:
        for inc in (False, True):
            ix = _dir_idx(k, inc)
            if len(ix) != len(set(ix)):
                fails.append("wf: duplicate %s index on the %s commitment: %s"
                             % ("received" if inc else "offered", name, sorted(ix)))
    # local_sub_conf: offered HTLCs of ours are on the peer's current and pending commitment
    lo = set(_dir_idx(d["ltail"], False))
    for name, k in sets[1:]:
        miss = lo - set(_dir_idx(k, False))
        if miss:
            fails.append("local_sub_conf: offered htlc %s on our commitment but not on the "
                         "peer's %s commitment" % (sorted(miss), name))
    # the cut order it follows from (Shape.inv_cut_order): ours is behind the peer's
    # commitments in OUR updates and ahead of them in THEIR updates
    lt = d["ltail"]
    for name, k in sets[1:]:
        if lt["ours"] > k["ours"]:
            fails.append("cut-order: local tail covers %d of our updates, %s only %d"
                         % (lt["ours"], name, k["ours"]))
        if k["theirs"] > lt["theirs"]:
            fails.append("cut-order: %s covers %d of their updates, local tail only %d"
                         % (name, k["theirs"], lt["theirs"]))
    # one HTLC, one record (what the projection sets_of relies on)
    seen = {}
    for name, k in sets:
        for h in k["htlcs"]:
            key = (bool(h[0]), h[2])
            rec = (h[1], h[3], h[4])
            if seen.setdefault(key, rec) != rec:
                fails.append("record: htlc %s differs between commitments: %s vs %s"
                             % (key, seen[key], rec))
    return fails


def shape_stage(ctx, out, script=None):
    """Runs the channel harness (real lnwallet, reconnects included) and evaluates
    `shape` on every party dump.  Results into the dict `out` (thread target)."""
    env = {"VERIF_CASES": "300" if ctx.thorough else "20",
           "VERIF_CRASH": "1", "VERIF_CUT": "1", "VERIF_SIDE": "0"}
    if script:
        env["VERIF_CHAN_SCRIPT"] = script
    rows = cc.run_chan_harness(ctx, env=env, suffix="_shape", report=False, corpus=False)
    last = cc.run_chan_harness.last or {}
    out["rc"], out["log"] = last.get("rc"), last.get("log", "")
    out["rows"] = rows
    st = {"dumps": 0, "with_offered_local": 0, "with_pending": 0, "remote_strictly_more": 0,
          "pending_differs_from_remote": 0, "dust_disagreement": 0, "after_reconnect": 0,
          "reloaded_from_disk": 0}
    bad = []
    distinct = set()
    for row in rows:
        seen_cut = False
        for where, p, d in cc.dumps_of_case(row):
            if not seen_cut and where.startswith("step"):
                i = int(where.split()[1])
                seen_cut = row["steps"][i]["op"][0] == "cut"
            st["dumps"] += 1
            st["reloaded_from_disk"] += 1 if where.endswith("reloaded") else 0
            st["after_reconnect"] += 1 if seen_cut else 0
            lo = set(_dir_idx(d["ltail"], False))
            ro = set(_dir_idx(d["rtail"], False))
            st["with_offered_local"] += 1 if lo else 0
            st["remote_strictly_more"] += 1 if ro - lo else 0
            if d.get("rtip") is not None:
                st["with_pending"] += 1
                if d["rtip"]["htlcs"] != d["rtail"]["htlcs"]:
                    st["pending_differs_from_remote"] += 1
                rd = {h[2]: h[5] for h in d["rtail"]["htlcs"] if not h[0]}
                if any((not h[0]) and h[2] in rd and rd[h[2]] != h[5] for h in d["rtip"]["htlcs"]):
                    st["dust_disagreement"] += 1
            distinct.add(json.dumps([d["ltail"]["htlcs"], d["rtail"]["htlcs"],
                                     (d.get("rtip") or {}).get("htlcs")]))
            f = shape_fails(d)
            if f and len(bad) < 3:
                i = int(where.split()[1]) if where.startswith("step") else -1
                bad.append({"case": row.get("case"), "seed": row.get("seed"),
                            "chan_type": row.get("chan_type"), "where": where, "party": p,
                            "fails": f[:5], "dump": {k: d.get(k) for k in ("ltail", "rtail", "rtip")},
                            "script": {"chan_type": row.get("chan_type"),
                                       "ops": [s["op"] for s in row["steps"][:i + 1]]}})
    st["distinct_set_triples"] = len(distinct)
    # the schedules must be protocol runs of two agreeing peers (otherwise the real
    # channel has left the model the shape theorem is about): C01's no_errors / agreement;
    # and what is on disk (what chain_watcher reads) must be what the live object holds:
    # C02's reload_consistent on the crash observations / restarts
    tie = []
    ab = {}
    for row in rows:
        if row.get("aborted"):
            ab[row["aborted"]] = ab.get(row["aborted"], 0) + 1
        f = cc.all_predicates(row, only={"no_errors", "agreement", "reload_consistent"})
        for name, fl in f.items():
            if len(tie) < 2:
                tie.append({"case": row.get("case"), "seed": row.get("seed"),
                            "chan_type": row.get("chan_type"), "predicate": name,
                            "fails": fl[:5],
                            "script": {"chan_type": row.get("chan_type"),
                                       "ops": [s["op"] for s in row["steps"]]}})
    st["aborted"] = ab
    out["stats"], out["bad"], out["tie"] = st, bad, tie


def shape_correspondence(ctx, rows):
    """The dumps the predicate was evaluated on ARE states of the channel model:
    replay the schedules on Channel/Model.v (Channel.Exec, vm_compute)."""
    terms, used = [], 0
    for row in rows:
        t, n, _why = cm.case_term(row, with_reload=True, with_cut=True,
                                  expect_fail=cc.expected_failure(row))
        terms.append(t)
        used += n
    ok, bad, logs = coq_mismatches(ctx.uid("_shape"), cm.IMPORTS, terms,
                                   shard=max(2, len(terms) // NCPU + 1), timeout=2400)
    return ok, bad, logs, used

# ----------------------------------------------------------------------- run


def run(ctx):
    tm, t_last = {}, [time.time()]

    def lap(name):
        tm[name] = round(time.time() - t_last[0], 1)
        t_last[0] = time.time()
    pr = ctx.proof_stage(MODULE, THEOREMS, TARGETS, extra_trusted=[
        "Shape hypotheses of the classification theorems (unique indexes; an offered HTLC on our "
        "commitment is also on the peer's current and pending commitments) are stated in the "
        "general theorems and DERIVED for the HTLC sets of every reachable state of the channel "
        "model in the *_reachable theorems (Arb/Shape.v over Channel/Model.v, whose tie to "
        "lnwallet is C01's; re-run here on the shape-stage schedules)",
        "resolutions_complete hypothesis: lnwallet hands the arbitrator one Incoming/Outgoing"
        "HtlcResolution per HTLC output of the confirmed commitment (exercised by C05)",
        "contract resolvers' own progress after insertion is out of scope here (C13)"])
    lap("proof_stage")
    env = {}
    tests = "^(TestVerifActions|TestVerifAttendant)$"
    shape_script = None
    if ctx.replay:
        rp = json.load(open(ctx.replay))
        d = rp.get("detail", {})
        case = d.get("case")
        if isinstance(case, dict) and "ops" in case:
            p = os.path.join(BUILD, "replay_%s.json" % ctx.uid())
            json.dump({"cases": [case]}, open(p, "w"))
            if case.get("loop"):
                env["VERIF_REPLAY_ATT"] = p
                tests = "^TestVerifAttendant$"
            else:
                env["VERIF_REPLAY"] = p
        if isinstance(d.get("script"), dict):
            shape_script = os.path.join(BUILD, "replay_%s_shape.json" % ctx.uid())
            json.dump([d["script"]], open(shape_script, "w"))
    # C12b stage: real channel schedules, in parallel with the arbitrator harness
    shp = {}

    def _shape():
        try:
            shape_stage(ctx, shp, script=shape_script)
            if shp.get("rows"):
                shp["corr"] = shape_correspondence(ctx, shp["rows"])
        except Exception as ex:           # reported below as harness_failed
            shp["exc"] = repr(ex)
    th = threading.Thread(target=_shape)
    th.start()
    # one test binary, two tests (in parallel): the decision functions called directly
    # (TestVerifActions) and the running arbitrator's event loop (TestVerifAttendant)
    att_trace = os.path.join(BUILD, "trace_%s_att.jsonl" % ctx.uid())
    try:
        os.remove(att_trace)
    except FileNotFoundError:
        pass
    env["VERIF_OUT_ATT"] = att_trace
    rc, trace, out = run_harness(ctx.uid(), "contractcourt", HARNESS, tests,
                                 env=env, timeout=1500)
    lap("go_harness")
    rows = read_jsonl(trace)
    lrows = read_jsonl(att_trace)
    want_rows = "VERIF_REPLAY_ATT" not in env
    want_lrows = "VERIF_REPLAY" not in env
    if rc != 0 or (want_rows and not rows) or (want_lrows and not lrows):
        th.join()
        ctx.violation("harness_failed", "TestVerifActions/TestVerifAttendant",
                      {"log": out[-4000:]}, signature="harness", failing_input=False)
        return

    # (3) property predicate on the implementation's own trace
    sigs = {}
    nbad = 0
    for c in rows:
        for thm, sig, msg in predicate(c):
            key = sig.split(" ")[0] + "|" + thm
            sigs[key] = sigs.get(key, 0) + 1
            if sigs[key] > 1 and not sig.startswith(KNOWN_SIG):
                continue
            if sigs[key] > 1:
                continue
            nbad += 1
            ctx.violation("impl_violates_predicate", thm, {"case": c, "fails": [msg]},
                          signature=sig)

    # (4) correspondence with the model
    terms = [t_case(c) for c in rows]
    ok, bad, logs = coq_mismatches(ctx.uid(), IMPORTS, terms,
                                   shard=max(20, len(terms) // NCPU + 1))
    if not ok:
        ctx.violation("correspondence_mismatch", "Arb.ActionsExec (model evaluation failed)",
                      {"logs": logs}, signature="model-eval", failing_input=False)
    for ci, opsidx in bad[:3]:
        c = rows[ci]
        ctx.violation("correspondence_mismatch", "Arb.ActionsExec.check_case",
                      {"case": c, "op_indices": opsidx,
                       "disagreeing_ops": [{"op": c["ops"][i], "impl": c["obs"][i]}
                                           for i in opsidx[:4]]},
                      signature="actions mismatch", failing_input=bool(predicate(c)))
    lap("direct_predicate_and_model")
    # event loop: predicate on the running arbitrator's histories + correspondence
    for c in lrows:
        for thm, sig, msg in loop_predicate(c):
            key = sig.split(" ")[0] + "|" + thm
            sigs[key] = sigs.get(key, 0) + 1
            if sigs[key] > 1:
                continue
            ctx.violation("impl_violates_predicate", thm, {"case": c, "fails": [msg]},
                          signature=sig)
    lbad = []
    if lrows:
        okl, lbad, logsl = coq_mismatches(ctx.uid("_att"), IMPORTS_ATT, [t_lcase(c) for c in lrows],
                                          shard=max(20, len(lrows) // NCPU + 1),
                                          mism="att_mismatches")
        if not okl:
            ctx.violation("correspondence_mismatch",
                          "Arb.AttendantExec (model evaluation failed)", {"logs": logsl},
                          signature="model-eval loop", failing_input=False)
        for ci, opsidx in lbad[:3]:
            c = lrows[ci]
            ctx.violation("correspondence_mismatch", "Arb.AttendantExec.check_lcase",
                          {"case": c, "op_indices": opsidx,
                           "disagreeing_ops": [{"op": c["ops"][i], "impl": c["obs"][i]}
                                               for i in opsidx[:4]]},
                          signature="attendant mismatch", failing_input=bool(loop_predicate(c)))
    lap("loop_predicate_and_model")
    # C12b: shape predicate on the real channel's party dumps + their tie to the model
    th.join()
    lap("wait_shape_stage")
    if shp.get("exc") or shp.get("rc") != 0 or not shp.get("rows"):
        ctx.violation("harness_failed", "TestVerifChan (shape stage)",
                      {"exc": shp.get("exc"), "rc": shp.get("rc"), "log": (shp.get("log") or "")[-4000:]},
                      signature="harness shape", failing_input=False)
    for b in shp.get("bad", []):
        ctx.violation("impl_violates_predicate", "C12_shape_reachable", b,
                      signature="shape " + b["fails"][0][:100])
    for b in shp.get("tie", []):
        ctx.violation("impl_violates_predicate", "C12_shape_reachable/%s" % b["predicate"], b,
                      signature="shape chan %s %s" % (b["predicate"], b["fails"][0][:100]))
    if "corr" in shp:
        okc, badc, logsc, usedc = shp["corr"]
        if not okc:
            ctx.violation("correspondence_mismatch", "Channel.Exec (shape stage, model evaluation "
                          "failed)", {"logs": logsc[:3]}, signature="model-eval shape",
                          failing_input=False)
        for ci, codes in badc[:3]:
            row = shp["rows"][ci]
            stepi = codes[0] if codes else -1
            ctx.violation("correspondence_mismatch", "Channel.Exec.check_case (shape stage)",
                          {"case": row.get("case"), "chan_type": row.get("chan_type"),
                           "step_index": stepi, "code": codes[1:],
                           "script": {"chan_type": row.get("chan_type"),
                                      "ops": [s["op"] for s in row["steps"][:stepi + 1]]}},
                          signature="shape chan mismatch code=%s" % codes[1:], failing_input=False)
    if not pr["ok"] and not ctx.violations:
        ctx.violation("proof_broken", ", ".join(pr["broken"]) or "Arb/Actions build",
                      {"log": pr["log"][-4000:]}, signature="proof", failing_input=False)
    if ctx.thorough:
        ctx.coqchk(["LV.Arb.ActionsProps"])

    # (6) coverage
    kinds, opk, states, nh = {}, {}, {}, {}
    nfail = nres = nfinal = nfc = 0
    for c in rows:
        kinds[c["kind"]] = kinds.get(c["kind"], 0) + 1
        n = len(c["active"]["l"]) + len(c["active"]["r"]) + len(c["active"]["p"])
        nh[min(n, 12)] = nh.get(min(n, 12), 0) + 1
        for op, ob in zip(c["ops"], c["obs"]):
            k = op["op"] + (":" + op["kind"] if op["op"] == "close" else "")
            opk[k] = opk.get(k, 0) + 1
            states[ob["state"]] = states.get(ob["state"], 0) + 1
            nfail += len(ob["fail"])
            nres += len(ob["resolvers"])
            nfinal += len(ob["final"])
            nfc += ob["fc"]
    lnontriv = [c for c in lrows
                if any(o["op"] == "block" for o in c["ops"]) and
                (c["active"]["l"] or c["active"]["r"] or any(o["op"] == "upd" for o in c["ops"]))]
    ctx.cov.update({
        "evaluations": len(rows) + len(lrows),
        "distinct_nontrivial": distinct_count(
            [c for c in rows if c["ops"] and (c["active"]["l"] or c["active"]["r"])] + lnontriv,
            lambda c: [c["env"], c["active"], c["ops"]]),
        "rule": "seeded scenarios on the real ChannelArbitrator: three HTLC sets (protocol-shaped "
                "+ a malformed stream) x direction x dust per commitment x preimage (cache / "
                "invoice) x forwarded/own x grace period x heights at every cut-off and +-1 x "
                "{blocks, user close} x close {local, remote, pending, breach, coop}; thorough "
                "tier adds the exhaustive two-HTLC universe; non-trivial = has HTLCs and at "
                "least one operation; distinct by (env, sets, ops)",
        "traces_validated_against_impl": len(rows) + len(lrows),
        "direct_call_cases": len(rows),
        "stage_wall_s": tm,
        "loop_stage": dict(loop_stats(lrows), **{
            "rule": "histories on the RUNNING ChannelArbitrator (Start(): real channelAttendant "
                    "goroutine, real bolt log, test clock): (re)start / contract signals (same "
                    "and new scid) / commitment updates from the link / clock ticks / blockbeats "
                    "/ user requests.  Enumerated: one HTLC {own, forwarded, received+preimage, "
                    "received} x {in the start-up sets, delivered by updates} x disturbance "
                    "{none, signal, signal new scid, sets re-sent, other HTLC added, HTLC removed, restart} "
                    "early and inside the last grace period before the critical block x up-time "
                    "{grace, grace+1} x height {cut-off-1, cut-off} (quick: full for own payments, "
                    "single disturbance for the others); plus seeded histories over the HTLC "
                    "universe of the direct cases with ticks at grace-1/grace/grace+1.  Per event: "
                    "the six observables, the clock and the grace reference (startTimestamp); "
                    "decision at every block/start compared with the property text under the time "
                    "since the LAST START and replayed on Arb.AttendantModel",
            "correspondence_mismatches": len(lbad),
        }),
        "case_kinds": kinds, "op_kinds": opk, "states_after_op": states,
        "htlcs_per_case": nh, "failbacks": nfail, "resolvers": nres,
        "incoming_dust_finals": nfinal, "force_closes": nfc,
        "predicate_failures_by_signature": sigs,
        "samples": [rows[0]["ops"][:2]] if rows else [lrows[0]["ops"][:4]],
        "correspondence_mismatches": len(bad) + len(lbad),
        "shape_stage": {
            "rule": "seeded asynchronous schedules (reconnects and reloads from the channel DB "
                    "included) on two real LightningChannels; `shape` (wf, local_sub_conf for "
                    "remote and pending, cut order, one record per HTLC) evaluated on EVERY party "
                    "dump of every step, live and reloaded; schedules must pass C01 no_errors / "
                    "agreement and C02 reload_consistent and are replayed on Channel/Model.v "
                    "(Channel.Exec)",
            "schedules": len(shp.get("rows") or []),
            "steps": sum(len(r["steps"]) for r in shp.get("rows") or []),
            "stats": shp.get("stats"),
            "predicate_failures": len(shp.get("bad") or []),
            "steps_checked_against_model": (shp.get("corr") or (0, 0, 0, 0))[3],
            "correspondence_mismatches": len((shp.get("corr") or (0, [], 0, 0))[1]),
        },
    })
    ctx.assumptions += [
        "direct-call cases: the arbitrator goroutine is not started, the harness calls "
        "handleBlockbeat / advanceState(userTrigger) / handle*CloseEvent directly, one event at a "
        "time; the event-loop histories run the real goroutine (Start()) but deliver no close "
        "event (close events are exercised by the direct-call cases and by C13)",
        "event-loop histories: every (re)start is followed at the same clock instant by the "
        "link's first UpdateContractSignals (what link.Start does; it is the synchronisation "
        "point); a restart hands the new arbitrator the link's latest HTLC sets; IsForwardedHTLC "
        "answers for the short channel id announced by the last contract signals",
        "per HTLC index the peer's current and pending commitment agree on dust-ness in the "
        "generated arbitrator cases (otherwise checkRemoteDanglingActions depends on Go map "
        "iteration order); such states ARE reachable (C12_shape_dust_disagreement_reachable), "
        "the theorems cover them with the model's first-record resolution",
        "shape stage: the HTLC sets handed to the arbitrator are those of ONE channel state "
        "(LocalCommitment / RemoteCommitment / pending remote commitment at the time of the close)",
        "legacy logs without a CommitSet (FetchChainActions path) are out of scope",
    ]
