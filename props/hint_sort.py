"""Follow-up layers of C04 / C05 on the punish harness trace:

* C04 layer 1 — the commitment STATE HINT (Channel/StateHint.v): python predicates on the
  implementation's own (obfuscator, height, locktime, sequence) tuples and Coq terms for
  HintSortExec.mismatches_hint.
* C05_htlc_sig_index (Channel/CommitSort.v): predicates on the output order of every signed
  commitment with >= 2 HTLC outputs, on the HTLC -> output assignment of populateHtlcIndexes on
  the signer and on the verifier side and on the order in which the verifier consumed the HTLC
  signatures; Coq terms for HintSortExec.mismatches_sort.
"""
import collections

from lib.verif import cZ, cN, cnat, cbool, clist, copt

IMPORTS = ("From Coq Require Import List ZArith NArith Bool.\nImport ListNotations.\n"
           "From LV Require Import Channel.StateHint Channel.CommitSort Channel.HintSortExec.\n")
TARGETS = ["theories/Channel/StateHint.vo", "theories/Channel/StateHintProofs.vo",
           "theories/Channel/CommitSort.vo", "theories/Channel/CommitSortProofs.vo",
           "theories/Channel/HintSortExec.vo", "theories/Channel/HintSortExamples.vo"]

TIMELOCK_SHIFT = 1 << 29
MASK24 = (1 << 24) - 1

# ---------------------------------------------------------------------------
# state hint


def hint_entries(row):
    """[(cheater, h, obf, lock, seq, decoded)] of every captured commitment of a case."""
    out = []
    for e in row.get("revoked", []):
        hr = e.get("hint_raw")
        if hr:
            out.append((e["cheater"], e["h"], hr[0], hr[1], hr[2], e["hint"]))
    return out


def pred_hint_row(row):
    """Implementation-only predicate on the fields of every captured commitment: the hint
    decodes to the height, sequence = 0x80 || 24 bits, locktime in [2^29, 2^29 + 2^24), and
    all commitments of one channel carry pairwise distinct (sequence, locktime)."""
    fails = []
    seen = {}
    for cheater, h, obf, lock, seq, dec in hint_entries(row):
        tag = "cheater=%s h=%d" % (cheater, h)
        if dec != h:
            fails.append("%s: state hint decodes to %s" % (tag, dec))
        if seq >> 24 != 0x80:
            fails.append("%s: sequence %#x: high byte is not 0x80 (sequence lock not disabled "
                         "or payload outside 24 bits)" % (tag, seq))
        if not (TIMELOCK_SHIFT <= lock < TIMELOCK_SHIFT + (1 << 24)):
            fails.append("%s: locktime %d outside [2^29, 2^29 + 2^24)" % (tag, lock))
        if obf >= 1 << 48:
            fails.append("%s: obfuscator %#x wider than 48 bits" % (tag, obf))
        k = (seq, lock)
        if k in seen and seen[k] != h:
            fails.append("%s: heights %d and %d carry the same (sequence, locktime)" % (tag, seen[k], h))
        seen[k] = h
    return fails


def pred_hint_probe(probe):
    """Boundary probes: accepted iff h < 2^48 (and one input), round trip, field ranges."""
    fails = []
    for obf, h, n_in, code, seq, lock, got in probe or []:
        tag = "probe obf=%#x h=%d inputs=%d" % (obf, h, n_in)
        if code == 9:
            continue
        want = 1 if h >= 1 << 48 else (2 if n_in != 1 else 0)
        if code != want:
            fails.append("%s: SetStateNumHint outcome %d, expected %d (0 ok, 1 too large, 2 inputs)"
                         % (tag, code, want))
            continue
        if code == 0:
            if got != h:
                fails.append("%s: GetStateNumHint returns %d" % (tag, got))
            if seq >> 24 != 0x80 or not (TIMELOCK_SHIFT <= lock < TIMELOCK_SHIFT + (1 << 24)):
                fails.append("%s: fields sequence=%#x locktime=%d out of range" % (tag, seq, lock))
    return fails


def hint_case(obf, h, n_in, code, seq, lock, got):
    return "(%s, %s, %s, %s, %s, %s, %s)" % tuple(cN(x) for x in (obf, h, n_in, code, seq, lock, got))


def hint_terms(rows, probe):
    """One Coq case (a list of hint cases) per harness case + one for the probe row."""
    terms, metas = [], []
    for row in rows:
        ents = hint_entries(row)
        terms.append(clist([hint_case(obf, h, 1, 0, seq, lock, dec) for (_, h, obf, lock, seq, dec) in ents]))
        metas.append([("case %s" % row.get("case"), c, h) for (c, h, *_r) in ents])
    pr = [p for p in (probe or []) if p[3] != 3]
    terms.append(clist([hint_case(*p) for p in pr]))
    metas.append([("probe",) + tuple(p) for p in pr])
    return terms, metas


# ---------------------------------------------------------------------------
# commitment sort / HTLC signature index

# view entry of an HTLC: [htlc_index, hash_id, amt_msat, timeout, out_index, pk_hex, sig_hex]
H_IDX, H_HASH, H_AMT, H_EXP, H_OUT, H_PK, H_SIG = range(7)


def _pk_of(view, h):
    if h[H_PK]:
        return h[H_PK]
    if 0 <= h[H_OUT] < len(view["outs"]):
        return view["outs"][h[H_OUT]][1]
    return ""


def _lists(view, side):
    """(so, vo): HTLCs offered by the signer / by the verifier, in view order."""
    if side == "s":
        return view["out"], view["in"]
    return view["in"], view["out"]


def pred_view(view, side, tag):
    """One commitment as one party sees it: assignment injective and pointing at the HTLC's own
    (satoshi value, pkScript); outputs in non-decreasing (value, pkScript, cltv) order."""
    fails = []
    outs = view["outs"]
    used = {}
    cltv = [0] * len(outs)
    for name in ("out", "in"):
        for h in view[name]:
            oi = h[H_OUT]
            if oi < 0:
                continue
            what = "%s HTLC %d (%s)" % (tag, h[H_IDX], name)
            if oi >= len(outs):
                fails.append("%s: output index %d beyond the transaction" % (what, oi))
                continue
            if oi in used:
                fails.append("%s: output %d also assigned to HTLC %s" % (what, oi, used[oi]))
            used[oi] = "%d (%s)" % (h[H_IDX], name)
            if outs[oi][0] != h[H_AMT] // 1000:
                fails.append("%s: output %d holds %d sat, HTLC is %d sat"
                             % (what, oi, outs[oi][0], h[H_AMT] // 1000))
            if h[H_PK] and outs[oi][1] != h[H_PK]:
                fails.append("%s: output %d does not carry the HTLC's script" % (what, oi))
            cltv[oi] = h[H_EXP]
    keys = [(outs[i][0], bytes.fromhex(outs[i][1]), cltv[i]) for i in range(len(outs))]
    for i in range(len(keys) - 1):
        if keys[i] > keys[i + 1]:
            fails.append("%s: outputs %d and %d are not in (value, pkScript, cltv) order: %s > %s"
                         % (tag, i, i + 1, (keys[i][0], keys[i][1].hex()[:16], keys[i][2]),
                            (keys[i + 1][0], keys[i + 1][1].hex()[:16], keys[i + 1][2])))
    return fails


def sig_order(e):
    """The slots [(out_index, by_signer, htlc_index)] in the order their signatures sit in the
    commit_sig, as the VERIFIER consumed them; None when it cannot be reconstructed."""
    v, sigs = e.get("v"), e.get("sigs")
    if v is None or sigs is None:
        return None
    pos = {s: i for i, s in enumerate(sigs)}
    if len(pos) != len(sigs):
        return None
    got = []
    for name, by_signer in (("in", True), ("out", False)):
        for h in v[name]:
            if h[H_OUT] < 0:
                continue
            if not h[H_SIG] or h[H_SIG] not in pos:
                return None
            got.append((pos[h[H_SIG]], h[H_OUT], by_signer, h[H_IDX]))
    got.sort()
    return [(o, b, i) for (_, o, b, i) in got]


def pred_sort_entry(e):
    fails = []
    tag = "commitment of %s at height %d" % (e["owner"], e["h"])
    s, v = e.get("s"), e.get("v")
    for side, view in (("s", s), ("v", v)):
        if view is not None:
            fails += pred_view(view, side, tag + (" (signer)" if side == "s" else " (verifier)"))
    if s is not None and v is not None:
        if s["outs"] != v["outs"]:
            fails.append("%s: signer and verifier built different output lists" % tag)
        for a, b, who in ((s["out"], v["in"], "signer"), (s["in"], v["out"], "verifier")):
            ma = {h[H_IDX]: h[H_OUT] for h in a}
            mb = {h[H_IDX]: h[H_OUT] for h in b}
            if ma != mb:
                fails.append("%s: HTLCs offered by the %s: signer assigns %s, verifier assigns %s"
                             % (tag, who, sorted(ma.items()), sorted(mb.items())))
    if v is not None and e.get("sigs") is not None:
        n_on = sum(1 for name in ("in", "out") for h in v[name] if h[H_OUT] >= 0)
        if len(e["sigs"]) != n_on:
            fails.append("%s: commit_sig carries %d HTLC signatures for %d HTLC outputs"
                         % (tag, len(e["sigs"]), n_on))
        order = sig_order(e)
        if order is not None:
            idx = [o for (o, _, _) in order]
            if idx != sorted(idx):
                fails.append("%s: HTLC signatures were consumed for outputs %s, not in output order"
                             % (tag, idx))
    return fails


SIG_ERR = ("sig_invalid", "HTLC signatures", "htlc sig")


def pred_sig_errors(row):
    """A commit_sig of the honest counterparty must never be rejected."""
    fails = []
    for i, st in enumerate(row["steps"]):
        res = st.get("res") or ""
        if any(x in res for x in SIG_ERR):
            fails.append("step %d %s: %s" % (i, st["op"], res))
        for d in (st.get("extra") or {}).get("delivered") or []:
            if any(x in str(d[2]) for x in SIG_ERR):
                fails.append("step %d cut: delivering %s to %s: %s" % (i, d[1], d[0], d[2]))
    ab = row.get("aborted") or ""
    if any(x in ab for x in SIG_ERR) or ab.startswith(("deliver_sig", "cut_deliver_sig")):
        fails.append("case aborted: %s" % ab)
    return fails


def pred_sort_row(row):
    fails = pred_sig_errors(row)
    for e in row.get("sorts", []):
        fails += pred_sort_entry(e)
    return fails


# ---- Coq terms ----


def cbytes_hex(hx):
    return "[" + ";".join(str(x) for x in bytes.fromhex(hx)) + "]%N"


def out_term(val, pkhex, cltv):
    return "(mkOut %s %s %s)" % (cZ(val), cbytes_hex(pkhex), cN(cltv))


def hd_term(view, h):
    return "(mkHd %s %s %s %s %s %s)" % (cN(h[H_IDX]), cN(h[H_HASH] + 1), cZ(h[H_AMT] // 1000),
                                         cN(h[H_EXP]), cbytes_hex(_pk_of(view, h)), cbool(h[H_OUT] >= 0))


def _base(view):
    """The non-HTLC outputs: transaction outputs minus the (value, script) of every non-dust
    HTLC; None when the subtraction fails (reported by the predicate)."""
    cnt = collections.Counter((o[0], o[1]) for o in view["outs"])
    for name in ("out", "in"):
        for h in view[name]:
            if h[H_OUT] >= 0:
                k = (h[H_AMT] // 1000, _pk_of(view, h))
                if cnt[k] <= 0:
                    return None
                cnt[k] -= 1
    base = []
    for k in sorted(cnt):
        base += [k] * cnt[k]
    return base


def _cltvs(view):
    c = [0] * len(view["outs"])
    for name in ("out", "in"):
        for h in view[name]:
            if 0 <= h[H_OUT] < len(c):
                c[h[H_OUT]] = h[H_EXP]
    return c


def _obs(view, side):
    so, vo = _lists(view, side)
    cl = _cltvs(view)
    tx = clist([out_term(o[0], o[1], cl[i]) for i, o in enumerate(view["outs"])])
    f = lambda l: clist([copt(h[H_OUT] if h[H_OUT] >= 0 else None, cnat) for h in l])
    return "(Some (%s, %s, %s))" % (tx, f(so), f(vo))


def sort_cases(e):
    """Coq sort_case terms of one signed commitment (one term; two when the two sides hold the
    per-direction HTLC lists in different orders — each side is then checked on its own)."""
    s, v = e.get("s"), e.get("v")
    ref = s or v
    if ref is None:
        return []
    order = lambda view, side: [[h[H_IDX] for h in l] for l in _lists(view, side)]
    same = s is None or v is None or order(s, "s") == order(v, "v")
    out = []
    groups = [(s, v)] if same else [(s, None), (None, v)]
    for gs, gv in groups:
        view, side = (gs, "s") if gs is not None else (gv, "v")
        base = _base(view)
        if base is None:
            continue
        so, vo = _lists(view, side)
        sigs = sig_order(e) if gv is not None else None
        out.append("(mkSortCase %s %s %s %s %s %s)" % (
            clist([out_term(b[0], b[1], 0) for b in base]),
            clist([hd_term(view, h) for h in so]), clist([hd_term(view, h) for h in vo]),
            _obs(gs, "s") if gs is not None else "None",
            _obs(gv, "v") if gv is not None else "None",
            copt(sigs, lambda l: clist(["(%s, %s, %s)" % (cnat(o), cbool(b), cN(i)) for (o, b, i) in l]))))
    return out


def sort_terms(rows):
    terms, metas = [], []
    for row in rows:
        cs, meta = [], []
        for e in row.get("sorts", []):
            for t in sort_cases(e):
                cs.append(t)
                meta.append("commitment of %s at height %d" % (e["owner"], e["h"]))
        terms.append(clist(cs))
        metas.append(meta)
    return terms, metas


SORT_CODES = {6000: "signer's transaction differs from CommitSort.signer_tx (output order)",
              6200: "signer's remoteOutputIndex assignment differs from CommitSort.signer_view",
              6400: "verifier's transaction differs from CommitSort.verifier_tx (output order)",
              6600: "verifier's localOutputIndex assignment differs from CommitSort.verifier_view",
              6800: "order in which the verifier consumed the HTLC signatures differs from CommitSort.verifier_sigs",
              7000: "model: signer_sigs <> verifier_sigs",
              7200: "observed transaction is not sorted by (value, pkScript, cltv)"}


def sort_histograms(rows):
    h = {"signed_commitments": 0, "both_sides": 0, "with_sig_order": 0, "with_duplicate_outputs": 0,
         "with_value_ties": 0, "with_script_ties_cltv_differs": 0, "schedules_with_sorts": 0,
         "schedules_with_duplicates": 0, "dup_mode_schedules": 0, "directed_dup_adds": 0,
         "max_htlc_outputs": 0, "per_direction_order_differs": 0}
    for r in rows:
        h["dup_mode_schedules"] += 1 if r.get("dup_mode") else 0
        h["directed_dup_adds"] += r.get("dup_adds") or 0
        es = r.get("sorts") or []
        if es:
            h["schedules_with_sorts"] += 1
        rd = False
        for e in es:
            h["signed_commitments"] += 1
            s, v = e.get("s"), e.get("v")
            view = s or v
            if s and v:
                h["both_sides"] += 1
                if [[x[H_IDX] for x in l] for l in _lists(s, "s")] != [[x[H_IDX] for x in l] for l in _lists(v, "v")]:
                    h["per_direction_order_differs"] += 1
            if sig_order(e) is not None:
                h["with_sig_order"] += 1
            on = [x for name in ("out", "in") for x in view[name] if x[H_OUT] >= 0]
            h["max_htlc_outputs"] = max(h["max_htlc_outputs"], len(on))
            full = collections.Counter((x[H_AMT] // 1000, _pk_of(view, x), x[H_EXP]) for x in on)
            vals = collections.Counter(o[0] for o in view["outs"])
            scr = collections.Counter((x[H_AMT] // 1000, _pk_of(view, x)) for x in on)
            if any(c > 1 for c in full.values()):
                h["with_duplicate_outputs"] += 1
                rd = True
            if any(c > 1 for c in vals.values()):
                h["with_value_ties"] += 1
            if any(c > 1 and not any(f[:2] == k and fc == c for f, fc in full.items()) for k, c in scr.items()):
                h["with_script_ties_cltv_differs"] += 1
        h["schedules_with_duplicates"] += 1 if rd else 0
    return h
