"""python3 -m props.script_selftest [--tier quick|thorough] — runs the C04/C05 script-layer
stage alone under a temporary Ctx and prints a summary.  Exit status 0 = stage green."""
import argparse
import json
import os
import sys
import time

from lib import verif
from props import c0405_script


def main():
    ap = argparse.ArgumentParser()
    ap.add_argument("--tier", default=os.environ.get("VERIF_TIER", "quick"), choices=["quick", "thorough"])
    a = ap.parse_args()
    seed = int(os.environ.get("VERIF_SEED", "1") or "1")
    os.environ["VERIF_TIER"] = a.tier
    os.environ["VERIF_SEED"] = str(seed)
    ctx = verif.Ctx("SCRIPT", a.tier, seed)
    t0 = time.time()
    res = c0405_script.run_script_stage(ctx)
    cov = res.get("cov", {})
    pr = res.get("proof", {})
    print("---- script stage (C04/C05 layer 4) tier=%s seed=%d ----" % (a.tier, seed))
    print("proof stage ok      :", pr.get("ok"), pr.get("broken") or "")
    for t, s in (cov.get("proof", {}).get("theorems") or {}).items():
        print("   %-34s %s" % (t, s))
    for k in ("evaluations", "interpreted", "distinct_nontrivial", "engine_accept", "engine_reject",
              "template_checks", "witness_shape_checks", "tx_effect_checks", "lock_time_to_sequence_samples",
              "predicate_failures", "correspondence_mismatches", "mismatch_codes", "parameter_drift",
              "by_kind", "by_ver", "timing_s"):
        print("%-20s: %s" % (k, json.dumps(cov.get(k))))
    print("violations          :", res.get("violations"), [os.path.basename(p) for p in ctx.violations])
    print("wall                : %.1fs" % (time.time() - t0))
    ok = bool(res.get("ok")) and bool(pr.get("ok"))
    print("RESULT:", "OK" if ok else "FAILED")
    return 0 if ok else 1


if __name__ == "__main__":
    sys.exit(main())
