"""C06 — revocation secrets: compact, exact, released only when safe."""
from lib.verif import *
from props import chan_check
from props import c06_points

THEOREMS = [
    "C06_store_exact", "C06_store_stable", "C06_unreceived_unknown", "C06_producer_accepted",
    "C06_reject_inconsistent", "C06_accept_criterion", "C06_leaf_unchecked",
    "C06_bounded", "C06_codec_roundtrip",
    # own chain: slot -> index discipline (Shachain/SlotModel.v), see props/c06_points.py
    "C06_own_points_no_gap", "C06_own_secrets_no_gap", "C06_own_chain_bounded", "C06_slot_index",
]
MODULE = "LV.Shachain.Props"
TARGETS = ["theories/Shachain/Props.vo", "theories/Shachain/Exec.vo",
           "theories/Shachain/Examples.vo", "theories/Shachain/GenBridge.vo",
           "theories/Shachain/SlotExec.vo"]
WARM = [{"pkg": "shachain", "files": ["shachain/verif_store_test.go"]}] + chan_check.WARM + \
    [{"pkg": "contractcourt", "files": ["contractcourt/verif_breachwatch_test.go"]}] + c06_points.WARM
IMPORTS = ("From Coq Require Import List NArith.\nImport ListNotations.\n"
           "From LV Require Import Shachain.Exec.\n")


def op_term(o):
    k = o[0]
    if k == "add":
        return "OAdd %s %s" % (cbytes(o[1]), cbool(o[2]))
    if k == "lookup":
        return "OLookup %s %s" % (cN(o[1]), copt(o[2], cbytes))
    if k == "encdec":
        return "OEncDec %s" % cbytes(o[1])
    if k == "prod":
        return "OProd %s %s %s" % (cbytes(o[1]), cN(o[2]), copt(o[3], cbytes))
    if k == "sha":
        return "OSha %s %s" % (cbytes(o[1]), cbytes(o[2]))
    if k == "load":
        return "OLoad %s %s" % (cbytes(o[1]), cbool(o[2]))
    raise ValueError(k)


START = 2 ** 48 - 1


def _ctz(i):
    z = 0
    while z < 48 and (i >> z) & 1 == 0:
        z += 1
    return z


def _flip_hash(hexh, b):
    import hashlib
    buf = bytearray(bytes.fromhex(hexh))
    buf[b // 8] ^= 1 << (b % 8)
    return hashlib.sha256(bytes(buf)).hexdigest()


def _decode(hexenc):
    """(nbuckets, [(idx, hashhex)], index) of a serialized store."""
    import struct
    enc = bytes.fromhex(hexenc)
    n = enc[0]
    bks = []
    for i in range(n):
        o = 1 + 40 * i
        bks.append((struct.unpack(">Q", enc[o:o + 8])[0], enc[o + 8:o + 40].hex()))
    return n, bks, struct.unpack(">Q", enc[1 + 40 * n:1 + 40 * n + 8])[0], len(enc)


def _bucket_index(idx, b):
    """smallest index > idx with exactly b trailing zeros (None if > START)."""
    step = 1 << b
    cand = ((idx + 1) + step - 1) & ~(step - 1)
    if (cand >> b) & 1 == 0:
        cand += step
    return cand if cand <= START else None


def predicate(case):
    """Property predicates evaluated on the IMPLEMENTATION's trace alone
    (python + hashlib, independent of the Coq model):
      exact      every accepted secret is returned by every later lookup
      producer   a clean producer sequence is never rejected, lookups = producer
      criterion  an offered secret is accepted iff sha256(flip_b(h)) equals the
                 secret received 2^b steps earlier for all b < ctz(index)
                 (C06_accept_criterion / C06_reject_inconsistent)
      bounded    <= 48 buckets (49 values), encoding = 9 + 40*n bytes
      codec      every encoding holds, per bucket b, the most recent index with
                 exactly b trailing zeros together with its accepted secret
    Returns list of failure strings."""
    fails = []
    if case["nbuckets"] > 48:
        fails.append("stores %d buckets" % case["nbuckets"])
    if case.get("exh_bad"):
        fails.append("exhaustive sweep: lookup != producer at (k,v)=%s" % case["exh_bad"][:3])
    ops = case["ops"]
    known = {}          # index -> secret hex the store accepted / was loaded with
    base = 0
    for o in ops:
        if o[0] == "load":
            if not o[2]:
                fails.append("a store encoding produced by the node itself failed to decode")
                continue
            n, bks, idx, _ = _decode(o[1])
            base = START - idx
            for (bi, bh) in bks:
                known[bi] = bh
    k = base
    prod = {}
    clean = case["kind"] not in ("corrupt", "tamper")
    for o in ops:
        if o[0] == "prod":
            prod[o[2]] = o[3]
            if o[2] <= START and o[3] is None:
                fails.append("producer failed at index %d inside the 48-bit index space" % o[2])
            if o[2] > START and o[3] is not None:
                fails.append("producer answered index %d beyond the index space" % o[2])
        elif o[0] == "add":
            idx = START - k
            exp = True
            undecided = False
            for b in range(_ctz(idx)):
                prev = known.get(idx + (1 << b))
                if prev is None:
                    undecided = True
                elif _flip_hash(o[1], b) != prev:
                    exp = False
            if not undecided and exp != o[2]:
                fails.append("add #%d (index ...%s, %d trailing zeros): implementation %s, "
                             "derivation criterion says %s" %
                             (k, bin(idx)[-6:], _ctz(idx), "accepted" if o[2] else "rejected",
                              "accept" if exp else "reject"))
            if clean and not o[2]:
                fails.append("producer secret #%d rejected" % k)
            if o[2]:
                known[idx] = o[1]
                k += 1
        elif o[0] == "lookup":
            v, res = o[1], o[2]
            if v <= START and (START - v) in known and v >= base and res != known[START - v]:
                fails.append("lookup %d returned %s, accepted secret was %s" % (v, res, known[START - v]))
            # C06_unreceived_unknown: for ANY accepted insert sequence (garbage leaves included,
            # kind corrupt) nothing is answered for k <= v <= 2^48-1; only a deliberately damaged
            # loaded store (kind tamper) is outside the theorem's reachable states
            if v >= k and res is not None and (clean or (case["kind"] != "tamper" and v <= START)):
                fails.append("lookup %d beyond the %d received secrets succeeded" % (v, k))
            if clean and v < k and v in prod and res != prod[v]:
                fails.append("lookup %d differs from producer" % v)
            if clean and v < k and res is None:
                fails.append("lookup %d of a received secret failed" % v)
        elif o[0] == "encdec":
            n, bks, idx, ln = _decode(o[1])
            if ln != 9 + 40 * n or n > 48:
                fails.append("encoding of %d buckets has %d bytes" % (n, ln))
            if idx != START - k:
                fails.append("encoded index %d after %d secrets" % (idx, k))
            # the per-bucket invariant is a property of states REACHABLE by inserts;
            # a deliberately damaged loaded store (kind tamper) is not one
            for b, (bi, bh) in enumerate(bks if case["kind"] != "tamper" else []):
                want = _bucket_index(idx, b)
                if want is None or bi != want:
                    fails.append("encoded bucket %d holds index %d, most recent with %d trailing "
                                 "zeros is %s" % (b, bi, b, want))
                elif want in known and known[want] != bh:
                    fails.append("encoded bucket %d holds a secret that was never accepted" % b)
            nb = 0
            for b in range(48):
                if _bucket_index(idx, b) is not None:
                    nb = b + 1
            if nb != n:
                fails.append("encoded %d buckets, %d are in use after %d secrets" % (n, nb, k))
    if case.get("k") is not None and case["k"] != k:
        fails.append("harness counted %d accepted secrets, trace has %d" % (case["k"], k))
    return fails


def run(ctx):
    pr = ctx.proof_stage(MODULE, THEOREMS, TARGETS, extra_trusted=[
        "hash function H, bit flip and hash_eqb are universally quantified in every theorem; the "
        "only hypothesis is `forall a b, hash_eqb a b = true <-> a = b` (Go compares [32]byte "
        "arrays), shown satisfiable by Examples.hash_eqb_hypothesis_satisfied; execution "
        "instantiates Common/Sha256.v (checked against crypto/sha256 by the harness)",
        "guard of every theorem: number of received secrets <= 2^48-1 (at index 0 the Go array "
        "[48]element would be indexed at 48 and panic; not modelled)"])
    # private file names per process: concurrent `./check C06` runs must not share
    # trace / cases files (seen once: interleaved writes -> "Syntax error" in a shard)
    uid = ctx.uid("p%d" % os.getpid())
    try:
        _run(ctx, pr, uid)
    finally:
        _cleanup(uid)


def _cleanup(uid):
    import glob as _glob
    import shutil as _shutil
    from lib import verif as _v
    for p in _glob.glob(os.path.join(_v.BUILD, "coq_eval", "*cases_%s*" % uid)) + \
            _glob.glob(os.path.join(_v.BUILD, "trace_%s*.jsonl" % uid)):
        try:
            os.remove(p)
        except OSError:
            pass
    _shutil.rmtree(os.path.join(_v.BUILD, "overlay", uid), ignore_errors=True)


def _run(ctx, pr, uid):
    henv = {}
    if ctx.replay:
        # re-run exactly the recorded inputs on the current tree
        import json as _json
        rep = _json.load(open(ctx.replay))
        if not isinstance(rep.get("detail", {}).get("case"), dict):
            ctx.note("replay file has no recorded case (kind=%s): running the normal check"
                     % rep.get("kind"))
        else:
            henv["VERIF_REPLAY"] = os.path.abspath(ctx.replay)
    rc, trace, out = run_harness(uid, "shachain", ["shachain/verif_store_test.go"],
                                 "^TestVerifShachain$", timeout=1500, env=henv)
    rows = read_jsonl(trace)
    if rc != 0 or not rows:
        ctx.violation("harness_failed", "TestVerifShachain", {"log": out[-4000:]},
                      signature="harness", failing_input=False)
        return
    # implementation-side predicates
    nfail = 0
    pred_kinds = {}
    for c in rows:
        f = predicate(c)
        if f:
            nfail += 1
            key = f[0].split(" ")[0]
            pred_kinds[key] = pred_kinds.get(key, 0) + 1
            if nfail <= 3:
                ctx.violation("impl_violates_predicate", "C06_store_exact/C06_unreceived_unknown/C06_accept_criterion/"
                              "C06_bounded/C06_codec_roundtrip",
                              {"case": c, "fails": f[:10]},
                              signature="shachain case kind=%s %s" % (c["kind"], f[0]))
    # correspondence
    small_rows = [c for c in rows if c["kind"] != "exh"]
    big_rows = [c for c in rows if c["kind"] == "exh"]
    bad_all = []
    for part, shard, tag in ((small_rows, max(8, len(small_rows) // (2 * NCPU) + 1), ""),
                             (big_rows, 1, "x")):
        if not part:
            continue
        terms = [clist([op_term(o) for o in c["ops"]]) for c in part]
        ok, bad, logs = coq_mismatches(uid + tag, IMPORTS, terms, shard=shard, timeout=3000)
        if not ok:
            ctx.violation("correspondence_mismatch", "Shachain.Exec (model evaluation failed)",
                          {"logs": logs}, signature="model-eval", failing_input=False)
        for ci, opsidx in bad:
            bad_all.append((part[ci], opsidx))
    for c, opsidx in bad_all[:3]:
        first = opsidx[0]
        ctx.violation("correspondence_mismatch", "Shachain.Exec.check_case",
                      {"case": c, "first_disagreement_at_op": first,
                       "disagreeing_ops": [c["ops"][i] for i in opsidx[:5]],
                       "op_indices": opsidx[:50]},
                      signature="shachain mismatch", failing_input=True)
    if not pr["ok"] and not ctx.violations:
        ctx.violation("proof_broken", ", ".join(pr["broken"]) or "Shachain build",
                      {"log": pr["log"][-4000:]}, signature="proof", failing_input=False)
    if ctx.thorough:
        okc, outc = ctx.coqchk(["LV.Shachain.Props"])
        if not okc:
            ctx.violation("proof_broken", "coqchk LV.Shachain.Props", {"log": outc[-3000:]},
                          signature="coqchk", failing_input=False)
    kinds = {}
    nops = 0
    opk = {}
    khist = {}
    for c in rows:
        kinds[c["kind"]] = kinds.get(c["kind"], 0) + 1
        nops += len(c["ops"])
        kb = "k<2^%d" % (int(c["k"]).bit_length())
        khist[kb] = khist.get(kb, 0) + 1
        for o in c["ops"]:
            key = o[0] + ("" if o[0] not in ("add", "lookup", "prod") else
                          (":ok" if (o[2] if o[0] == "add" else o[-1] is not None) else ":err"))
            opk[key] = opk.get(key, 0) + 1
    ctx.cov.update({
        "evaluations": len(rows),
        "distinct_nontrivial": distinct_count([c for c in rows if len(c["ops"]) > 3],
                                              lambda c: c["ops"]),
        "rule": "seeded op sequences (producer, add incl. corrupted/replayed/shifted secrets, "
                "lookup incl. power-of-two neighbours and indices beyond 2^48, "
                "encode->decode->continue, far start positions via the codec, loaded stores with "
                "one damaged bucket (every bucket comparison singled out); thorough: all "
                "k < 1024 exhaustively from 3 roots); non-trivial = more than 3 ops; distinct "
                "by full op list",
        "traces_validated_against_impl": len(rows),
        "ops_total": nops, "case_kinds": kinds, "op_kinds": opk, "k_histogram": khist,
        "max_k": max(c["k"] for c in rows),
        "predicate_failures": pred_kinds,
        "exhaustive_lookups_checked_in_impl": sum(c.get("exh_checked", 0) for c in rows),
        "samples": [rows[0]["ops"][:6]],
        "correspondence_mismatches": len(bad_all),
    })
    ctx.assumptions += ["SHA-256 modelled in Gallina (Common/Sha256.v), tied by OSha samples",
                        "release-rule conjunct (C06b) is decided on the Channel model: see C02",
                        "C06_reject_inconsistent is the precise true form of 'rejects any "
                        "inconsistent secret': a secret at an index without trailing zeros is "
                        "never checked (C06_leaf_unchecked)"]


_store_run = run


def run(ctx):
    """C06 = store/producer/codec half (above) + release-rule half decided on real
    channels (schedules with restarts, reconnects and stale side writers)."""
    # third stage, in a thread next to the other two: the node must reproduce every
    # received secret also through the CHAIN WATCHER's own OpenChannel instance (loaded from
    # the database earlier than the revocations it is asked about) — props/breachwatch.py
    import threading
    bw = {"res": None, "err": None}

    def breachwatch_stage():
        try:
            from props import breachwatch
            bw["res"] = breachwatch.run_stage(ctx)
        except Exception:
            import traceback
            bw["err"] = traceback.format_exc()

    # fourth stage, also in a thread: every value of the node's OWN chain that leaves it
    # (channel_ready incl. every re-send path, revoke_and_ack, channel_reestablish) carries the
    # index its slot requires — props/c06_points.py; its violations are reported below, from
    # this thread (Ctx.violation numbers the replay files)
    pt = {"res": None, "viol": [], "err": None}

    def points_stage():
        try:
            pt["res"], pt["viol"] = c06_points.run_stage(ctx)
        except Exception:
            import traceback
            pt["err"] = traceback.format_exc()

    th = threading.Thread(target=breachwatch_stage)
    th2 = threading.Thread(target=points_stage)
    th.start()
    th2.start()
    try:
        _store_run(ctx)
        chan_check.run_prop(ctx, "C06", nested=True)
    finally:
        th.join()
        th2.join()
    if pt["err"]:
        ctx.violation("harness_failed", "points stage crashed", {"traceback": pt["err"]},
                      signature="points-stage-crashed", failing_input=False)
    for v in pt["viol"]:
        ctx.violation(v["kind"], v["name"], v["detail"], signature=v["signature"],
                      failing_input=v["failing_input"])
    if pt["res"] is not None:
        ctx.cov["points_stage"] = pt["res"]
    if bw["err"]:
        ctx.violation("harness_failed", "breachwatch stage crashed", {"traceback": bw["err"]},
                      signature="breachwatch-stage-crashed", failing_input=False)
    elif bw["res"] is not None:
        ctx.cov["breachwatch_stage"] = bw["res"]
