"""C06 — revocation secrets: compact, exact, released only when safe."""
from lib.verif import *

THEOREMS = [
    "C06_store_exact", "C06_producer_accepted", "C06_reject_inconsistent",
    "C06_bounded", "C06_codec_roundtrip",
]
MODULE = "LV.Shachain.Props"
TARGETS = ["theories/Shachain/Props.vo", "theories/Shachain/Exec.vo"]
WARM = [{"pkg": "shachain", "files": ["shachain/verif_store_test.go"]}]
IMPORTS = ("From Coq Require Import List NArith.\nImport ListNotations.\n"
           "From LV Require Import Shachain.Exec.\n")


def op_term(o):
    k = o[0]
    if k == "add":
        return "OAdd %s %s" % (cbytes(o[1]), cbool(o[2]))
    if k == "lookup":
        return "OLookup %s %s" % (cN(o[1]), copt(o[2], cbytes))
    if k == "encdec":
        return "OEncDec %s" % cbytes(o[1])
    if k == "prod":
        return "OProd %s %s %s" % (cbytes(o[1]), cN(o[2]), copt(o[3], cbytes))
    if k == "sha":
        return "OSha %s %s" % (cbytes(o[1]), cbytes(o[2]))
    if k == "load":
        return "OLoad %s %s" % (cbytes(o[1]), cbool(o[2]))
    raise ValueError(k)


def predicate(case):
    """Property predicate evaluated on the IMPLEMENTATION's trace alone:
    every accepted secret is reproduced exactly by every later lookup; at
    most 49 values stored.  Returns list of failure strings."""
    fails = []
    if case["nbuckets"] > 49:
        fails.append("stores %d values" % case["nbuckets"])
    ops = case["ops"]
    accepted = {}
    k = None
    base = 0
    # position after an optional initial load
    import struct
    for o in ops:
        if o[0] == "load":
            enc = bytes.fromhex(o[1])
            base = (2 ** 48 - 1) - struct.unpack(">Q", enc[-8:])[0]
    k = base
    prod = {}
    for o in ops:
        if o[0] == "prod":
            prod[o[2]] = o[3]
        elif o[0] == "add" and o[2]:
            accepted[k] = o[1]
            k += 1
        elif o[0] == "lookup":
            v, res = o[1], o[2]
            if v in accepted and res != accepted[v]:
                fails.append("lookup %d returned %s, accepted secret was %s" % (v, res, accepted[v]))
            if v >= k and res is not None and case["kind"] != "corrupt":
                fails.append("lookup %d beyond the %d received secrets succeeded" % (v, k))
            if v < base and case["kind"] == "far" and v in prod and res != prod[v]:
                fails.append("lookup %d differs from producer" % v)
    return fails


def run(ctx):
    pr = ctx.proof_stage(MODULE, THEOREMS, TARGETS, extra_trusted=[
        "hash function and bit flip are Section variables: theorems hold for any hash; "
        "execution instantiates Common/Sha256.v (checked against crypto/sha256 by the harness)"])
    rc, trace, out = run_harness(ctx.uid(), "shachain", ["shachain/verif_store_test.go"],
                                 "^TestVerifShachain$", timeout=900)
    rows = read_jsonl(trace)
    if rc != 0 or not rows:
        ctx.violation("harness_failed", "TestVerifShachain", {"log": out[-4000:]},
                      signature="harness", failing_input=False)
        return
    # implementation-side predicate
    nfail = 0
    for c in rows:
        f = predicate(c)
        if f:
            nfail += 1
            ctx.violation("impl_violates_predicate", "C06_store_exact", {"case": c, "fails": f},
                          signature="shachain case kind=%s %s" % (c["kind"], f[0]))
            if nfail > 3:
                break
    # correspondence
    terms = [clist([op_term(o) for o in c["ops"]]) for c in rows]
    ok, bad, logs = coq_mismatches(ctx.uid(), IMPORTS, terms, shard=max(8, len(terms) // NCPU + 1))
    if not ok:
        ctx.violation("correspondence_mismatch", "Shachain.Exec (model evaluation failed)",
                      {"logs": logs}, signature="model-eval", failing_input=False)
    for ci, opsidx in bad[:3]:
        c = rows[ci]
        ctx.violation("correspondence_mismatch", "Shachain.Exec.check_case",
                      {"case": c, "disagreeing_ops": [c["ops"][i] for i in opsidx[:5]],
                       "op_indices": opsidx},
                      signature="shachain mismatch", failing_input=bool(predicate(c)))
    if not pr["ok"] and not ctx.violations:
        ctx.violation("proof_broken", ", ".join(pr["broken"]) or "Shachain build",
                      {"log": pr["log"][-4000:]}, signature="proof", failing_input=False)
    kinds = {}
    nops = 0
    opk = {}
    for c in rows:
        kinds[c["kind"]] = kinds.get(c["kind"], 0) + 1
        nops += len(c["ops"])
        for o in c["ops"]:
            key = o[0] + ("" if o[0] not in ("add", "lookup") else
                          (":ok" if (o[2] if o[0] == "add" else o[2] is not None) else ":err"))
            opk[key] = opk.get(key, 0) + 1
    ctx.cov.update({
        "evaluations": len(rows),
        "distinct_nontrivial": distinct_count([c for c in rows if len(c["ops"]) > 3],
                                              lambda c: c["ops"]),
        "rule": "seeded op sequences (producer, add incl. corrupted/replayed/shifted secrets, "
                "lookup, encode->decode->continue, far start positions via the codec); "
                "non-trivial = more than 3 ops; distinct by full op list",
        "traces_validated_against_impl": len(rows),
        "ops_total": nops, "case_kinds": kinds, "op_kinds": opk,
        "max_k": max(c["k"] for c in rows),
        "samples": [rows[0]["ops"][:6]],
        "correspondence_mismatches": len(bad),
    })
    ctx.assumptions += ["SHA-256 modelled in Gallina (Common/Sha256.v), tied by OSha samples",
                        "release-rule conjunct (C06b) is decided on the Channel model: see C02"]
