"""Script layer of C04 / C05 (layer 4): Gallina Bitcoin-script interpreter,
regenerated BOLT-3 script + witness templates, accept/reject theorems, and the
differential tie against btcd's txscript engine.

`run_script_stage(ctx)` runs the whole stage (proof stage for Script/Props.v,
Go harness, implementation-side predicate, correspondence, coverage) and
returns a dict; it reports violations on `ctx` but never calls ctx.finish(), so
props/c04.py and props/c05.py can use it as one stage.
`python3 -m props.script_selftest` runs it alone.
"""
import os
import re
import time

from lib.verif import *  # noqa: F401,F403
from lib import verif as _v

THEOREMS = [
    "C04_revocation_paths_accept", "C04_revocation_needs_revkey",
    "C05_local_paths_accept", "C05_remote_paths_accept",
    "C05_success_needs_preimage", "C05_timeout_needs_locktime", "C05_delay_is_enforced",
    "C05_funding_spend_accepts", "C05_csv_blocks_sufficient", "C0405_witness_roles",
]
MODULE = "LV.Script.Props"
TARGETS = ["theories/Gen/GenScripts.vo", "theories/Script/Exec.vo",
           "theories/Script/Props.vo", "theories/Script/Examples.vo"]
HARNESS = ["input/verif_script_test.go"]
WARM = [{"pkg": "input", "files": HARNESS}]
IMPORTS = ("From Coq Require Import List NArith ZArith Bool.\nImport ListNotations.\n"
           "From LV Require Import Script.Interp Script.Parse Script.Witness "
           "Gen.GenScripts Script.Spend Script.Exec.\n")
EXTRA_TRUSTED = [
    "script layer: sha256, ripemd160 (OP_HASH160 = ripemd160 o sha256) and the signature oracle "
    "`sigcheck` are universally quantified; hypotheses stated in the theorems: ripemd160 digests are "
    "20 bytes; `verify sigcheck key sig = true` (non-empty signature classified valid for that key over "
    "the spending tx's sighash) where a signature is required; `hash160 revkey <> hash160 []` / "
    "`<> hash160 preimage` on timeout / success paths (a collision would be a hash160 collision with "
    "the revocation key)",
    "script layer: byte-length side conditions key33/xonly/u32/elem_ok/schnorr_len on serialized keys, "
    "uint32 template numbers, witness items <= 520 bytes, 64..65-byte Schnorr signatures",
    "script layer abstracted (decided by the real engine in the harness only): P2WSH program = "
    "sha256(witness script), taproot control block / merkle commitment of the leaf, key-path taproot "
    "spends (no script), sighash computation, ECDSA/Schnorr, DER/low-S/pubkey encoding rules (inside the "
    "oracle class), resource limits (201 ops, 10 kB script, 1000 stack items)",
    "script layer: Go->Coq translator gen_scripts.go (templates, TemplateParams wiring, witness stacks, "
    "tx-field writes); cross-checked each run: parse(real script bytes) = regenerated template on every "
    "case, real witness stacks match the regenerated shapes, observed tx writes match the regenerated "
    "*_tx functions; `lock_time_to_sequence` is hand-modelled and sample-checked",
]

# mutation tags of the harness that must make the REAL engine reject (implementation-side
# predicate, independent of the model).  `sigN=empty` / softsig are excluded: the anchor
# script legitimately accepts them after 16 blocks.
_REJECT_TAGS = re.compile(
    r"^(sig\d+\^(mid|r|ht)|sig\d+_highS|sig\d+_ht\d+|sig\d+_wrongkey|sig\d+\+\d+|sig\d+-ht|"
    r"key\d+=other|pre\d+=(other|\d+))$")
_CLTV_PATHS = {("receiver_htlc", "timeout"), ("receiver_htlc", "timeout_preset"),
               ("tap_receiver_htlc", "timeout"), ("tap_receiver_htlc", "timeout_preset")}


def snake(s):
    out = []
    for i, c in enumerate(s):
        if c.isupper() and i > 0:
            prev = s[i - 1]
            nxt_lower = i + 1 < len(s) and s[i + 1].islower()
            if prev.islower() or (prev.isupper() and nxt_lower):
                out.append("_")
        out.append(c.lower())
    r = "".join(out)
    if r in ("end", "in", "at", "if", "then", "else", "let", "fun", "match", "with", "as",
             "return", "forall", "exists", "type", "set", "prop", "using", "where", "for"):
        r += "_"
    return r


def parse_gen():
    """Signatures of Gen/GenScripts.v: name -> (params [(name, type)], result type)."""
    path = os.path.join(_v.THEORIES, "Gen", "GenScripts.v")
    sigs, alias = {}, {}
    if not os.path.exists(path):
        return sigs
    txt = open(path).read()
    for m in re.finditer(r"^Definition (\w+)((?: \([\w ]+ : [\w >-]+\))*) : ([\w ]+?) :=", txt, re.M):
        params = []
        for g, t in re.findall(r"\(([\w ]+) : ([\w >-]+)\)", m.group(2)):
            for n in g.split():
                params.append((n, t.strip()))
        sigs[m.group(1)] = (params, m.group(3).strip())
    for m in re.finditer(r"^Notation (\w+) := (\w+) \(only parsing\)\.", txt, re.M):
        alias[m.group(1)] = m.group(2)
    for a, b in alias.items():
        if b in sigs:
            sigs[a] = sigs[b]
    return sigs


class Drift(Exception):
    pass


def _app(sigs, name, flags, args, atoms=None):
    """Coq application `(name a1 a2 ...)` with arguments looked up by snake-cased key."""
    if name not in sigs:
        raise Drift("no regenerated definition %s" % name)
    fl = {snake(k): v for k, v in (flags or {}).items()}
    ar = {snake(k): v for k, v in (args or {}).items()}
    out = [name]
    used = set()
    for pn, pt in sigs[name][0]:
        if pt == "bool":
            if pn not in fl:
                raise Drift("%s: flag %s not supplied by the harness (has %s)" % (name, pn, sorted(fl)))
            out.append(cbool(fl[pn]))
            used.add(pn)
        elif pt in ("data", "num", "Z"):
            if pn not in ar:
                raise Drift("%s: parameter %s not supplied by the harness (has %s)" % (name, pn, sorted(ar)))
            v = ar[pn]
            used.add(pn)
            if pt == "data":
                if not isinstance(v, dict) or "d" not in v:
                    raise Drift("%s: parameter %s is data in the template, harness gave %r" % (name, pn, v))
                out.append(hb(v["d"].lower(), atoms))
            elif pt == "num":
                n = v["n"] if isinstance(v, dict) else v
                out.append(cN(n))
            else:
                n = v["n"] if isinstance(v, dict) else v
                out.append(cZ(n))
        elif pt == "txctx":
            continue
        else:
            raise Drift("%s: parameter %s of unexpected type %s" % (name, pn, pt))
    extra = (set(fl) | set(ar)) - used
    if extra:
        raise Drift("%s: harness supplies %s which the regenerated definition does not take"
                    % (name, sorted(extra)))
    return "(" + " ".join(out) + ")" if len(out) > 1 else name


def hb(hexstr, atoms=None):
    """Coq literal of a byte string: reference into the case's atom table when possible,
    else a list of the byte constants x00..xff of Script/Exec.v"""
    if atoms is not None and hexstr in atoms:
        i = atoms[hexstr]
        return "sb" if i == "sb" else "(A a %d)" % i
    if not hexstr:
        return "[]"
    return "[" + ";".join("x" + hexstr[i:i + 2].lower() for i in range(0, len(hexstr), 2)) + "]"


def cctx(c):
    return "(mkCtx %s %s %s)" % (cN(c["version"]), cN(c["locktime"]), cN(c["sequence"]))


_CLS = {"V": "SigValid", "I": "SigInvalid", "S": "SigSoft", "E": "SigEncErr"}


def case_term(sigs, r, lts=None):
    ver = r["ver"]
    run = ver != "keyspend"
    at = {}
    for i, x in enumerate(r["atoms"]):
        at.setdefault(x.lower(), i)
    if r["script"] and r["script"].lower() not in at:
        at[r["script"].lower()] = "sb"
    tm = "None"
    if r.get("tmpl") and run:
        t = r["tmpl"]
        tm = "(Some %s)" % _app(sigs, snake(t["fn"]), t.get("flags"), t.get("args"), at)
    wit = "None"
    if r.get("wit"):
        w = r["wit"]
        wit = "(Some (%s, %s))" % (_app(sigs, snake(w["fn"]) + "_shape", w.get("flags"), {}),
                                   clist([hb(x.lower(), at) for x in w["full"]]))
    fx = "None"
    if r.get("txfx"):
        f = r["txfx"]
        fn = snake(f["fn"]) + "_tx"
        fx = "(Some (%s %s, %s))" % (_app(sigs, fn, {}, f.get("args")), cctx(f["before"]), cctx(f["after"]))
    def sN(n):
        return "x%02x" % n if 0 <= n < 256 else cN(n)
    orc = clist(["(%s, %s, %s)" % (sN(a), sN(b), _CLS[c]) for a, b, c in r.get("oracle", [])])
    l = clist(["(%s, %s, %s)" % (cbool(a), cN(b), cN(c)) for a, b, c in (lts or [])])
    return ("(let a := %s in let sb := %s in mkCase %s %s sb %s %s %s %s a %s %s %s %s %s %s)" % (
        clist([hb(x) for x in r["atoms"]]), hb(r["script"]),
        cbool(run), "Tapscript" if ver == "tap" else "SegV0", tm,
        clist([hb(x.lower(), at) for x in r["stack"]]), cctx(r["ctx"]), cZ(r.get("budget", 0)),
        clist([hb(x) for x in r["h160"]]), orc,
        cbool(r["engine_ok"]), wit, fx, l))


def predicate(r):
    """Property predicate on the implementation's own trace (real scripts, real witnesses,
    real engine), independent of the model.  Returns a list of failure strings."""
    fails = []
    if r["kind"] == "base" and not r["engine_ok"]:
        fails.append("witness built by lnd for %s/%s is REJECTED by the script engine: %s"
                     % (r["group"], r["path"], r.get("engine_err")))
    if r["kind"] == "wit_mut" and _REJECT_TAGS.match(r["mut"]) and r["engine_ok"]:
        fails.append("engine ACCEPTS %s/%s with mutation %s (forged signature / wrong key / wrong preimage)"
                     % (r["group"], r["path"], r["mut"]))
    if (r["group"], r["path"]) in _CLTV_PATHS and r["kind"] in ("base", "ctx_resign", "ctx_noresign"):
        exp = ((r.get("tmpl") or {}).get("args") or {}).get("CltvExpiry")
        if exp is not None and r["ctx"]["locktime"] < exp["n"] and r["engine_ok"]:
            fails.append("HTLC timeout path accepted with nLockTime %d < expiry %d"
                         % (r["ctx"]["locktime"], exp["n"]))
    # confirmedSpend scripts: every non-revocation path needs the 1-block CSV; delay paths need
    # nSequence >= delay (block-based operands only; unmutated witnesses only)
    if r["kind"] in ("base", "ctx_resign", "ctx_noresign") and r["engine_ok"] and r.get("tmpl"):
        t = r["tmpl"]
        need = None
        if t["fn"] in ("SenderHTLCScript", "ReceiverHTLCScript") and (t.get("flags") or {}).get("confirmedSpend") \
                and not r["path"].startswith("revoke"):
            need = 1
        elif t["fn"] in ("CommitScriptToRemoteConfirmed", "LeaseCommitScriptToRemoteConfirmed"):
            need = 1
        elif t["fn"] in ("CommitScriptToSelf", "LeaseCommitScriptToSelf", "SecondLevelHtlcScript",
                         "LeaseSecondLevelHtlcScript", "TaprootLocalCommitDelayScript",
                         "TaprootSecondLevelTapLeaf") and not r["path"].startswith("revoke"):
            a = t.get("args") or {}
            need = (a.get("CsvTimeout") or a.get("CsvDelay") or {}).get("n")
        if need is not None and 0 < need < 65536:
            seq, verx = r["ctx"]["sequence"], r["ctx"]["version"]
            bad = verx < 2 or (seq >> 31) & 1 or (seq >> 22) & 1 or (seq & 0xffff) < need
            if bad:
                fails.append("delayed path %s/%s accepted although BIP-112 is not satisfied: "
                             "delay %d, nSequence %#x, version %d" % (r["group"], r["path"], need, seq, verx))
    return fails


_CODES = {1: "real script bytes != regenerated template (T1 cross-check)",
          2: "interpreter verdict != engine verdict",
          3: "interpreter left its modelled subset (unsupported opcode / oracle gap)",
          4: "real witness stack != regenerated witness shape",
          5: "tx fields written by the real *Spend* function != regenerated *_tx",
          6: "LockTimeToSequence sample != model",
          7: "tapscript sig-ops budget != 50 + witness size"}


def _harness(ctx, uid, env=None):
    rc, trace, out = run_harness(uid, "input", HARNESS, "^TestVerifScript$", env=env, timeout=1200)
    return rc, read_jsonl(trace), out


def _translate_scripts():
    """Refresh Gen/GenScripts.v with the scripts generator alone, so that a failure of an
    unrelated generator (the lib's translate() then copies nothing) cannot leave this file stale.
    Returns (ok, log)."""
    ok_all, log_all = _v.translate()          # builds the translator if needed
    exe = os.path.join(_v.BUILD, "translate")
    if not os.path.exists(exe):
        return False, log_all
    import shutil
    with _v.Lock("translate"):
        tmp = os.path.join(_v.BUILD, "gen_tmp_scripts")
        shutil.rmtree(tmp, ignore_errors=True)
        os.makedirs(tmp)
        rc, out = _v.sh([exe, "-repo", _v.REPO, "-out", tmp, "-only", "scripts"], timeout=300)
        if rc != 0:
            return False, out
        _v.write_if_changed(os.path.join(_v.THEORIES, "Gen", "GenScripts.v"),
                            open(os.path.join(tmp, "GenScripts.v")).read())
    return True, out


def run_script_stage(ctx):
    t0 = time.time()
    res = {"ok": True, "violations": 0, "cov": {}}
    nviol0 = len(ctx.violations) + len(ctx.known_hits)

    def viol(*a, **k):
        ctx.violation(*a, **k)

    # ---- proof stage (keep the caller's cov/proof fields intact) ----
    saved_cov = dict(ctx.cov)
    saved_proof = getattr(ctx, "proof", None)
    tr_ok, tr_log = _translate_scripts()
    pr = ctx.proof_stage(MODULE, THEOREMS, TARGETS, extra_trusted=EXTRA_TRUSTED)
    if pr.get("translator_failed") and tr_ok:
        # some other generator failed; ours is fresh: not this stage's business
        pr["translator_failed"] = False
        pr["broken"] = [b for b in pr["broken"] if b != "translator"]
        okm, _ = coq_make(TARGETS)
        pr["ok"] = okm and not pr["broken"] and all(a is not None for a in pr["assumptions"].values())
        res["other_generator_failed"] = True
    if not tr_ok:
        pr["translator_failed"] = True
        pr["ok"] = False
        if "translator" not in pr["broken"]:
            pr["broken"].insert(0, "translator")
        pr["log"] = tr_log + "\n" + pr["log"]
    pcov = {k: ctx.cov.get(k) for k in ("obligations", "discharged", "theorems", "checker_cmd", "trusted_base")}
    ctx.cov.clear()
    ctx.cov.update(saved_cov)
    if saved_proof is not None:
        ctx.proof = saved_proof
    res["proof"] = pr
    res["cov"]["proof"] = pcov
    t_proof = time.time() - t0
    if pr.get("translator_failed"):
        viol("translator_failed", "translate/gen_scripts.go", {"log": pr["log"][-4000:]},
             signature="script-translator", failing_input=False)

    # ---- harness on the working tree ----
    t1 = time.time()
    rc, rows, out = _harness(ctx, ctx.uid("_script"))
    t_harness = time.time() - t1
    if not rows:
        viol("harness_failed", "TestVerifScript", {"rc": rc, "log": out[-4000:]},
             signature="script-harness", failing_input=False)
        res["ok"] = False
        res["violations"] = len(ctx.violations) + len(ctx.known_hits) - nviol0
        return res

    # ---- implementation-side predicate ----
    def check_pred(rs):
        n = 0
        for r in rs:
            f = predicate(r)
            if f:
                n += 1
                if n <= 3:
                    thm = ("C05_timeout_needs_locktime" if "nLockTime" in f[0] else
                           "C05_delay_is_enforced" if "BIP-112" in f[0] else
                           "C04_revocation_needs_revkey/C05_success_needs_preimage" if "ACCEPTS" in f[0]
                           else "C04_revocation_paths_accept/C05_*_paths_accept")
                    viol("impl_violates_predicate", thm,
                         {"case": {k: r[k] for k in ("id", "group", "path", "kind", "mut", "ver", "script",
                                                     "stack", "ctx", "engine_ok", "engine_err")},
                          "tmpl": r.get("tmpl"), "fails": f},
                         signature="script %s/%s %s" % (r["group"], r["path"], f[0][:60]))
        return n
    npred = check_pred(rows)
    if rc != 0 and npred == 0:
        viol("harness_failed", "TestVerifScript", {"rc": rc, "log": out[-4000:]},
             signature="script-harness", failing_input=False)

    # ---- correspondence ----
    t2 = time.time()
    sigs = parse_gen()
    terms, idx, drift = [], [], []
    lts = None
    for i, r in enumerate(rows):
        if r.get("lts") and lts is None:
            lts = r["lts"]
        try:
            terms.append(case_term(sigs, r, r.get("lts")))
            idx.append(i)
        except Drift as e:
            drift.append((i, str(e)))
        except (KeyError, TypeError, ValueError) as e:
            drift.append((i, "malformed harness row: %r" % (e,)))
    if drift:
        viol("correspondence_mismatch", "Gen/GenScripts.v vs harness parameter naming",
             {"n": len(drift), "first": [{"case": rows[i]["id"], "why": w} for i, w in drift[:5]]},
             signature="script-template-drift", failing_input=False)
    bad, logs, ok = [], [], True
    if terms:
        ok, bad, logs = coq_mismatches(ctx.uid("_script"), IMPORTS, terms,
                                       shard=max(20, len(terms) // (2 * NCPU) + 1))
    if not ok:
        viol("correspondence_mismatch", "Script.Exec (model evaluation failed)",
             {"logs": [l[-1500:] for l in logs[:3]]}, signature="script-model-eval", failing_input=False)
    codes = {}
    shown = 0
    for ci, cs in bad:
        r = rows[idx[ci]]
        for c in cs:
            codes[c] = codes.get(c, 0) + 1
        if shown < 3:
            shown += 1
            viol("correspondence_mismatch", "Script.Exec.check_case",
                 {"case": {k: r.get(k) for k in ("id", "group", "path", "kind", "mut", "ver", "script", "stack",
                                                 "ctx", "budget", "engine_ok", "engine_err", "tmpl", "wit", "txfx")},
                  "codes": {c: _CODES.get(c, "?") for c in cs}},
                 signature="script mismatch codes=%s %s/%s" % (cs, r["group"], r["path"]),
                 failing_input=bool(predicate(r)))
    t_corr = time.time() - t2

    # ---- broken proof without a concrete input: directed search, then report ----
    if not pr["ok"] and len(ctx.violations) + len(ctx.known_hits) == nviol0:
        rc2, rows2, out2 = _harness(ctx, ctx.uid("_script_search"),
                                    env={"VERIF_TIER": "thorough", "VERIF_SEED": str(ctx.seed + 1000)})
        if check_pred(rows2) == 0:
            viol("proof_broken", ", ".join(pr["broken"]) or "Script/Props.v build",
                 {"log": pr["log"][-4000:], "searched_cases": len(rows) + len(rows2)},
                 signature="script-proof", failing_input=False)

    # ---- thorough tier: independent re-check of the compiled proofs ----
    if ctx.thorough and pr["ok"]:
        saved_cov2 = ctx.cov.get("coqchk")
        okc, outc = ctx.coqchk(["LV.Script.Props"], timeout=2400)
        res["cov"]["coqchk"] = ctx.cov.pop("coqchk", None)
        if saved_cov2 is not None:
            ctx.cov["coqchk"] = saved_cov2
        if not okc:
            viol("proof_broken", "coqchk LV.Script.Props", {"log": outc[-3000:]},
                 signature="script-coqchk", failing_input=False)

    # ---- coverage ----
    def hist(key):
        h = {}
        for r in rows:
            k = key(r)
            h[k] = h.get(k, 0) + 1
        return dict(sorted(h.items()))
    interp = [r for r in rows if r["ver"] != "keyspend"]
    res["cov"].update({
        "evaluations": len(rows),
        "interpreted": len(interp),
        "distinct_nontrivial": distinct_count(interp, lambda r: (r["script"], r["stack"], r["ctx"])),
        "rule": "one case = (real script from the real lnd function, real witness from the real *Spend* "
                "function or a single-element mutation of it, spending-tx context), run through "
                "txscript.NewEngine(...StandardVerifyFlags...).Execute(); non-trivial = a script is executed "
                "(not a key-path spend); distinct by (script bytes, witness stack, nVersion/nLockTime/nSequence)",
        "traces_validated_against_impl": len(rows),
        "engine_accept": sum(1 for r in rows if r["engine_ok"]),
        "engine_reject": sum(1 for r in rows if not r["engine_ok"]),
        "by_kind": hist(lambda r: r["kind"]),
        "by_ver": hist(lambda r: r["ver"]),
        "by_template": hist(lambda r: (r.get("tmpl") or {}).get("fn", "-")),
        "by_spend_fn": hist(lambda r: (r.get("wit") or {}).get("fn", "-")),
        "mutation_tags": hist(lambda r: re.sub(r"\d+", "N", r["mut"])),
        "template_checks": sum(1 for r in interp if r.get("tmpl")),
        "witness_shape_checks": sum(1 for r in rows if r.get("wit")),
        "tx_effect_checks": sum(1 for r in rows if r.get("txfx")),
        "lock_time_to_sequence_samples": len(lts or []),
        "predicate_failures": npred,
        "correspondence_mismatches": len(bad),
        "mismatch_codes": {_CODES.get(c, str(c)): n for c, n in codes.items()},
        "parameter_drift": len(drift),
        "samples": [{k: rows[0][k] for k in ("id", "script", "stack", "ctx", "engine_ok")}],
        "timing_s": {"proof": round(t_proof, 1), "harness": round(t_harness, 1),
                     "correspondence": round(t_corr, 1), "total": round(time.time() - t0, 1)},
    })
    res["violations"] = len(ctx.violations) + len(ctx.known_hits) - nviol0
    res["ok"] = res["violations"] == 0
    res["assumptions"] = [
        "script layer: taproot key-path spends (HTLC / second-level revocation, anchor owner) have no script; "
        "only the engine verdict and the witness shape are checked for them",
        "script layer: P2WSH / taproot commitments of the script and sighash/ECDSA/Schnorr are exercised "
        "through the real engine, not modelled",
    ]
    return res
