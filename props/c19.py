"""C19 — every route the pathfinder returns is payable under all stated constraints."""
from lib.verif import *

THEOREMS = [
    "C19_checker_sound", "C19_newroute_consistent", "C19_hop_passes_C09",
    "C19_newroute_pays_exact_fees", "C19_get_edge_sound",
    "C19_search_invariant_init", "C19_search_invariant", "C19_search_sound",
    "C19_chain_stable", "C19_pops_sorted", "C19_findpath_sound", "C19_findpath_route_ok",
    # C19c: additional edges (route hints, blinded payment paths)
    "C19_blinded_findpath_route_ok", "C19_blinded_min_enforced", "C19_blinded_intro_paid",
    "C19_newroute_strip_dummy", "C19_unblind_backfill",
    "C19_blinded_max_refuted", "C19_blinded_aggregate_fee_refuted",
    "C19_blinded_intro_only_limits_refuted", "C19_blinded_payload_estimate_refuted",
]
MODULE = "LV.Route.Props"
TARGETS = ["theories/Route/Props.vo", "theories/Route/Exec.vo",
           "theories/Route/Examples.vo", "theories/Route/DijkstraExec.vo",
           "theories/Route/DijkstraExamples.vo", "theories/Route/BlindedExec.vo",
           "theories/Route/BlindedExamples.vo"]
HARNESS = ["routing/verif_route_test.go", "routing/verif_blinded_test.go",
           "routing/verif_session_test.go"]
WARM = [{"pkg": "routing", "files": HARNESS}]
IMPORTS = ("From Coq Require Import List ZArith NArith.\nImport ListNotations.\n"
           "From LV Require Import Route.Model Route.Exec.\n")
SIMPORTS = ("From Coq Require Import List ZArith NArith.\nImport ListNotations.\n"
            "From LV Require Import Route.Model Route.Exec Route.DijkstraExec.\n")
BIMPORTS = ("From Coq Require Import List ZArith NArith.\nImport ListNotations.\n"
            "From LV Require Import Route.Model Route.Exec Route.Blinded Route.BlindedExec.\n")
MAX_PAYLOAD = 1300
SUBCHECK = {0: "route_valid rejects the returned route",
            1: "model new_route differs from the returned route",
            2: "HopFee/TotalFees/ReceiverAmt differ from the model",
            3: "a path edge is not a policy of the graph",
            4: "replay of the relaxations along the path rejected / different totals",
            5: "lastHopPayloadSize differs from the real final-hop payload",
            6: "edgeUnifier.getEdge differs from the model",
            7: "search replay: an observed event is not a possible step of the Dijkstra model",
            8: "search replay: end of the search / unravelled chain differs from what findPath returned",
            9: "search replay: a domain guard, key monotonicity or pop order failed on an observed step",
            10: "blinded: ToRouteHints differs from the model (policy fields incl. HasMaxHTLC, order, NUMS dummy)",
            11: "blinded: target / final CLTV delta of the path set differ from the model",
            12: "blinded: last-hop restriction not met by the search path",
            13: "blinded: lastHopPayloadSize / real final-hop payload differ from the size model",
            14: "hints: RouteHintsToEdges differs from the model's hint_edges (end node / channel / fee / delta / count / order)"}


def subcheck_name(i):
    if i >= 100:
        return "search replay stuck at event %d" % (i - 100)
    return SUBCHECK.get(i, "?")


def zt(n):
    n = int(n)
    return str(n) if n >= 0 else "(%d)" % n


def edge_term(e):
    return "E %s %s %s %s %s %s %s %s %s %s %s %s %s" % (
        zt(e["chan"]), zt(e["from"]), zt(e["to"]), cbool(e["dis"]), zt(e["min"]),
        zt(e["max"]), cbool(e["hasmax"]), zt(e["base"]), zt(e["rate"]), zt(e["delta"]),
        zt(e["ibase"]), zt(e["irate"]), zt(e["cap"]))


def zlist(xs):
    return clist([zt(x) for x in xs])


def pairs(xs):
    return clist(["(%s, %s)" % (zt(a), zt(b)) for a, b in xs])


def env_term(c):
    return "(mkEnv %s %s %s %s)" % (zt(c["self"]), zt(c.get("height", 0)),
                                    zt(c.get("finald", 0)), pairs(c["hints"]))


def case_term(c):
    if c["kind"] == "getedge":
        res = "None" if c.get("res") is None else "(Some (%s))" % edge_term(c["res"])
        return "CGetEdge %s %s %s %s %s %s" % (
            cbool(c.get("local", False)), env_term(c),
            clist([edge_term(e) for e in c["cands"]]), zt(c["net"]), zt(c.get("nextout", 0)), res)
    restr = "(mkRestr %s %s %s %s %s %s)" % (
        zt(c["feelimit"]), zt(c["cltvlimit"]), zlist(c["outchans"]),
        "None" if c["lasthop"] < 0 else "(Some %s)" % zt(c["lasthop"]),
        zlist(c["ignnodes"]), pairs(c["ignpairs"]))
    route = "(mkRoute %s %s %s %s)" % (
        zt(c["src"]), zt(c["totalamt"]), zt(c["totaltl"]),
        clist(["H %s %s %s %s" % (zt(h["chan"]), zt(h["to"]), zt(h["amt"]), zt(h["tl"]))
               for h in c["hops"]]))
    return "CRoute %s %s %s %s %s %s %s %s %s %s %s %s %s" % (
        clist([edge_term(e) for e in c["edges"]]), env_term(c), restr,
        zt(c["amt"]), zt(c["src"]), zt(c["dst"]),
        clist([edge_term(e) for e in c["path"]]), route, zlist(c["sizes"]),
        zt(c["lastsize"]), zlist(c["hopfees"]), zt(c["totfees"]), zt(c["recv"]))


def restr_term(c):
    return "(mkRestr %s %s %s %s %s %s)" % (
        zt(c["feelimit"]), zt(c["cltvlimit"]), zlist(c["outchans"]),
        "None" if c["lasthop"] < 0 else "(Some %s)" % zt(c["lasthop"]),
        zlist(c["ignnodes"]), pairs(c["ignpairs"]))


def scase_term(c):
    """Search-trace case for Route/DijkstraExec.v."""
    evs = []
    for e in c["evs"]:
        if e[0] == 0:
            evs.append("EvPivot %s" % zt(e[1]))
        else:
            evs.append("EvProbe %s %s %s %s %s" % tuple(zt(x) for x in e[1:6]))
    if c["kind"] in ("route", "broute"):
        res = "(Some %s)" % clist([edge_term(e) for e in c["path"]])
    else:
        res = "None"
    sc = dict(c, finald=c["searchfinald"]) if c.get("searchfinald") else c
    return "SCase %s %s %s %s %s %s %s %s %s %s %s %s %s" % (
        clist([edge_term(e) for e in c["edges"]]), zlist(c.get("hintchans") or []),
        env_term(sc), restr_term(c), zt(c["amt"]), zt(c["src"]), zt(c["dst"]),
        zt(c["lastsize"]), zt(c["attempt"]), zt(c["minprobbits"]),
        triples(c.get("bsizes") or []), clist(evs), res)


def triples(xs):
    return clist(["(%s, %s, %s)" % (zt(a), zt(b), zt(d)) for a, b, d in xs])


def bpay_term(p):
    return "BP %s %s %s %s %s %s %s" % (
        zt(p["intro"]), zlist(p.get("hops") or []), zt(p["base"]), zt(p["rate"]),
        zt(p["delta"]), zt(p["min"]), zt(p["max"]))


def bcase_term(c):
    """Blinded row for Route/BlindedExec.v."""
    pub = [e for e in c["edges"] if not e.get("hint")]
    add = [e for e in c["edges"] if e.get("hint")]
    pays = clist([bpay_term(p) for p in c["blinded"]])
    if c["kind"] != "broute":
        return "CBlindedNo %s %s %s %s %s" % (
            env_term(c), zt(c["nums"]), pays, clist([edge_term(e) for e in add]), zt(c["dst"]))
    route = "(mkRoute %s %s %s %s)" % (
        zt(c["src"]), zt(c["totalamt"]), zt(c["totaltl"]),
        clist(["H %s %s %s %s" % (zt(h["chan"]), zt(h["to"]), zt(h["amt"]), zt(h["tl"]))
               for h in c["hops"]]))
    # encrypted-data lengths (opaque to the model): of the largest last hop of
    # the path set (LargestLastHopPayloadPath) and of the recipient reached
    ps = [dict(p, hops=p.get("hops") or []) for p in c["blinded"]]
    single = [p for p in ps if not p["hops"]]
    used = single[:1] if single else ps
    enc_est = max(max(2, p["ctlens"][-1]) for p in used)
    last = c["hops"][-1]["to"]
    enc_real = enc_est
    for p in used:
        if (p["hops"] or [p["intro"]])[-1] == last:
            enc_real = max(2, p["ctlens"][-1])
            break
    return "CBlinded %s %s %s %s %s %s %s %s %s %s %s %s %s %s %s %s %s %s %s %s %s %s" % (
        clist([edge_term(e) for e in pub]), env_term(c), restr_term(c),
        zt(c["amt"]), zt(c["src"]), zt(c["nums"]), pays,
        clist([edge_term(e) for e in add]), zt(c["dst"]),
        clist([edge_term(e) for e in c["path"]]), route, zlist(c["sizes"]),
        triples(c.get("bsizes") or []), zt(c["lastsize"]),
        zlist(c["hopfees"]), zt(c["totfees"]), zt(c["recv"]),
        zt(enc_est), zt(enc_real), zt(c["total"]), zt(c.get("customlen", -1)),
        cbool(bool(c.get("session"))))


def hints_term(c):
    """Session row: user-level hop hints and the edges lnd derived (BlindedExec.CHints)."""
    hs = clist([clist(["HH %s %s %s %s %s" % (zt(h["node"]), zt(h["chan"]), zt(h["base"]),
                                               zt(h["rate"]), zt(h["delta"])) for h in rh])
                for rh in (c.get("userhints") or [])])
    return "CHints %s %s %s" % (zt(c["dst"]), hs, clist([edge_term(e) for e in c.get("obsadd") or []]))


def session_predicate(c):
    """Payment-level predicate from the USER-LEVEL inputs of a payment with
    BOLT11 route hints (the hop hints as given), never from the edges lnd
    derived: every derived additional edge is the hint's channel from the
    hint's node to the next hint's node (the target for the last one) with the
    hint's fee and delta; and every hop of the returned route that travels over
    a hinted channel id leaves the hint's node, arrives at the hint's end node
    and the node in front of it is left the hint's fee and CLTV delta."""
    bad = []
    if c.get("sessbad"):
        bad.append(c.get("err") or "session handed findPath unexpected arguments")
    want = []
    for rh in c.get("userhints") or []:
        for i, h in enumerate(rh):
            to = rh[i + 1]["node"] if i + 1 < len(rh) else c["dst"]
            want.append(dict(h, to=to))
    obs = c.get("obsadd") or []
    if c.get("nobsadd", 0) != len(want) or len(obs) != len(want):
        bad.append("%d hop hints given, %d additional edges derived" % (len(want), c.get("nobsadd", 0)))
    for w, o in zip(want, obs):
        if (o["chan"], o["from"], o["to"], o["base"], o["rate"], o["delta"]) != \
                (w["chan"], w["node"], w["to"], w["base"], w["rate"], w["delta"]) or \
                o["dis"] or o["min"] or o["hasmax"]:
            bad.append("hop hint chan %d %d->%d fee %d/%d delta %d became edge chan %d %d->%d fee %d/%d delta %d"
                       % (w["chan"], w["node"], w["to"], w["base"], w["rate"], w["delta"],
                          o["chan"], o["from"], o["to"], o["base"], o["rate"], o["delta"]))
    if c["kind"] != "route":
        return bad
    byid = {}
    for w in want:
        byid.setdefault(w["chan"], []).append(w)
    edges = {(e["chan"], e["from"], e["to"]): e for e in c["edges"]}
    prev = c["src"]
    hops = c["hops"]
    carried = [c["totalamt"]] + [h["amt"] for h in hops[:-1]]
    expiry = [c["totaltl"]] + [h["tl"] for h in hops[:-1]]
    for i, h in enumerate(hops):
        ws = byid.get(h["chan"])
        if ws:
            m = [w for w in ws if w["node"] == prev and w["to"] == h["to"]]
            if not m:
                bad.append("hop %d travels over hinted channel %d from node %d to node %d, the hint says %s"
                           % (i, h["chan"], prev, h["to"],
                              ", ".join("%d->%d" % (w["node"], w["to"]) for w in ws)))
            elif i > 0:
                w = m[0]
                fwd = hops[i - 1]["amt"]
                fee = w["base"] + fwd * w["rate"] // 1000000
                # the node may net an inbound fee of the channel the payment
                # arrives on (public channels only), floored at zero
                pp = c["src"] if i == 1 else hops[i - 2]["to"]
                ein = edges.get((hops[i - 1]["chan"], pp, prev))
                if ein is not None and not ein.get("hint"):
                    fee = max(0, fee + in_fee(ein, fwd + fee))
                if carried[i - 1] - fwd < fee:
                    bad.append("node %d is left %d for hinted channel %d, the hint demands %d"
                               % (prev, carried[i - 1] - fwd, h["chan"], fee))
                if expiry[i - 1] - hops[i - 1]["tl"] < w["delta"]:
                    bad.append("node %d gets expiry gap %d for hinted channel %d, the hint demands %d"
                               % (prev, expiry[i - 1] - hops[i - 1]["tl"], h["chan"], w["delta"]))
        prev = h["to"]
    return bad


def blinded_search_view(c):
    """The blinded row as search_predicate expects it: one hop per PATH edge
    (dummy hop included) with the amounts that really travel (inside the blinded
    portion the payloads are zeroed; every blinded edge but the aggregate one is
    free, so the recipient's amount flows)."""
    if c["kind"] != "broute":
        return dict(c, kind="noroute")
    amts = []
    for i, e in enumerate(c["path"]):
        h = c["hops"][i] if i < len(c["hops"]) else None
        amts.append(h["amt"] if h is not None and h["amt"] != 0 else c["amt"])
    hops = [{"to": e["to"], "amt": a} for e, a in zip(c["path"], amts)]
    return dict(c, kind="route", hops=hops)


def search_predicate(c):
    """Chain stability as far as it is observable from outside findPath, on the
    implementation's own trace (independent of the model): no node is
    expanded twice, the source is never expanded, the nodes of the returned
    route were finalised successor-first, and the amount the route puts on
    every channel is exactly an amount processEdge evaluated for that channel
    direction while the hop's head was the pivot (i.e. the amounts newRoute
    recomputed are amounts that were validated against the pivot's entry)."""
    bad = []
    evs = c.get("evs") or []
    pivots = [e[1] for e in evs if e[0] == 0]
    if not pivots:
        return ["no expansion recorded"]
    if c.get("err") == "findPath does not terminate":
        bad.append("findPath did not terminate within %d processEdge calls" % 20000)
    if pivots[0] != c["dst"]:
        bad.append("first expanded node %d is not the target %d" % (pivots[0], c["dst"]))
    if len(set(pivots)) != len(pivots):
        dup = sorted({v for v in pivots if pivots.count(v) > 1})
        bad.append("node(s) %s expanded more than once (a popped node was pushed again)" % dup)
    if c["src"] in pivots[1:]:
        bad.append("the source %d was expanded" % c["src"])
    if c["kind"] != "route":
        return bad
    # probes grouped by the pivot during which they happened
    cur, probes = None, {}
    for e in evs:
        if e[0] == 0:
            cur = e[1]
        else:
            if e[2] != cur:
                bad.append("processEdge for %d->%d while the pivot is %s" % (e[1], e[2], cur))
            probes.setdefault((e[1], e[2]), []).append(e[3])
    hops = c["hops"]
    carried = [c["totalamt"]] + [h["amt"] for h in hops[:-1]]
    prev = c["src"]
    order = []
    for h, a in zip(hops, carried):
        if a not in probes.get((prev, h["to"]), []):
            bad.append("route sends %d over %d->%d but processEdge never evaluated that amount "
                       "there (evaluated: %s)" % (a, prev, h["to"], probes.get((prev, h["to"]), [])))
        if h["to"] not in pivots:
            bad.append("route passes node %d which was never finalised" % h["to"])
        else:
            order.append(pivots.index(h["to"]))
        prev = h["to"]
    if order != sorted(order, reverse=True):
        bad.append("nodes of the route were not finalised successor-first: %s" % order)
    return bad


# ---------------------------------------------------------------------------
# Property predicate on the implementation's own output — written from the
# property TEXT with python integers, independent of the Coq model.


def quot(a, b):
    q = abs(a) // abs(b)
    return q if (a >= 0) == (b > 0) else -q


def out_fee(e, amt):
    return e["base"] + (amt * e["rate"]) // 1000000


def in_fee(e, amt):
    rate = max(-10000000, min(10000000, e["irate"]))
    return e["ibase"] + quot(rate * amt, 1000000)


def predicate(c):
    """Every clause of the property for one returned route; returns the list
    of violated clauses (strings)."""
    bad = []
    hops = c["hops"]
    if not hops:
        return ["route has no hops"]
    edges = {}
    for e in c["edges"]:
        edges[(e["chan"], e["from"], e["to"])] = e
    hints = {k: v for k, v in c["hints"]}
    # connected from source to target over existing channel directions
    prev = c["src"]
    es = []
    for i, h in enumerate(hops):
        e = edges.get((h["chan"], prev, h["to"]))
        if e is None:
            return ["hop %d: no policy for channel %d from node %d to node %d"
                    % (i, h["chan"], prev, h["to"])]
        es.append(e)
        prev = h["to"]
    if prev != c["dst"]:
        bad.append("route ends at node %d, target is %d" % (prev, c["dst"]))
    n = len(hops)
    carried = [c["totalamt"]] + [h["amt"] for h in hops[:-1]]   # amount on channel i
    expiry = [c["totaltl"]] + [h["tl"] for h in hops[:-1]]      # expiry on channel i
    for i, (e, a) in enumerate(zip(es, carried)):
        tag = "hop %d chan %d" % (i, e["chan"])
        if e["from"] in c["ignnodes"]:
            bad.append(tag + ": leaves ignored node %d" % e["from"])
        if [e["from"], e["to"]] in c["ignpairs"]:
            bad.append(tag + ": uses ignored pair")
        if a < e["min"]:
            bad.append(tag + ": amount %d below min_htlc %d" % (a, e["min"]))
        if e["hasmax"] and a > e["max"]:
            bad.append(tag + ": amount %d above max_htlc %d" % (a, e["max"]))
        if e["cap"] > 0 and a > e["cap"] * 1000:
            bad.append(tag + ": amount %d above capacity %d sat" % (a, e["cap"]))
        if e["from"] == c["self"]:
            # local channel: bandwidth + outgoing channel restriction; the
            # disabled flag is deliberately ignored by lnd for own channels
            if e["chan"] in hints and a > hints[e["chan"]]:
                bad.append(tag + ": amount %d above local bandwidth %d" % (a, hints[e["chan"]]))
            if c["outchans"] and e["chan"] not in c["outchans"]:
                bad.append(tag + ": channel not in the outgoing channel set")
        elif e["dis"]:
            bad.append(tag + ": direction is disabled")
    # fee and expiry gap left for each forwarding node
    for i in range(n - 1):
        fwd = hops[i]["amt"]
        o = out_fee(es[i + 1], fwd)
        need = max(0, o + in_fee(es[i], fwd + o))
        got = carried[i] - fwd
        if got < need:
            bad.append("node %d keeps fee %d, policy demands %d" % (hops[i]["to"], got, need))
        gap = expiry[i] - hops[i]["tl"]
        if gap < es[i + 1]["delta"]:
            bad.append("node %d gets expiry gap %d, time lock delta is %d"
                       % (hops[i]["to"], gap, es[i + 1]["delta"]))
    # final hop
    if hops[-1]["amt"] != c["amt"]:
        bad.append("receiver amount %d != payment amount %d" % (hops[-1]["amt"], c["amt"]))
    if carried[-1] != hops[-1]["amt"]:
        bad.append("final hop is sent %d but its payload says %d" % (carried[-1], hops[-1]["amt"]))
    if hops[-1]["tl"] != c["height"] + c["finald"] or expiry[-1] != hops[-1]["tl"]:
        bad.append("final expiry %d/%d != height+final delta %d"
                   % (expiry[-1], hops[-1]["tl"], c["height"] + c["finald"]))
    # totals and limits
    if c["totalamt"] - c["amt"] > c["feelimit"]:
        bad.append("total fees %d exceed fee limit %d" % (c["totalamt"] - c["amt"], c["feelimit"]))
    if c["totaltl"] > c["cltvlimit"] + c["height"] + c["finald"]:
        bad.append("total time lock %d exceeds cltv limit %d (+height+final)"
                   % (c["totaltl"], c["cltvlimit"]))
    if c["lasthop"] >= 0 and es[-1]["from"] != c["lasthop"]:
        bad.append("penultimate node %d is not the required last hop %d"
                   % (es[-1]["from"], c["lasthop"]))
    if sum(c["sizes"]) > MAX_PAYLOAD or not c["sphinxok"] or c["onionsize"] > MAX_PAYLOAD:
        bad.append("onion payload %d bytes does not fit %d" % (sum(c["sizes"]), MAX_PAYLOAD))
    # per-hop amounts / fees add up to the totals
    if c["totalamt"] != c["recv"] + sum(c["hopfees"]) or c["totfees"] != sum(c["hopfees"]):
        bad.append("TotalAmount %d != receiver %d + hop fees %s" % (c["totalamt"], c["recv"], c["hopfees"]))
    if c["totaltl"] != c["height"] + c["finald"] + sum(expiry[i] - hops[i]["tl"] for i in range(n)):
        bad.append("time locks do not add up to TotalTimeLock")
    return bad


# ---------------------------------------------------------------------------
# C19c: routes that end in a blinded payment path.  Written from the property
# text + BOLT 4 route blinding, from the BLINDED PAYMENTS AS GIVEN (row
# "blinded"), not from the edges lnd derived from them: inside the blinded
# portion "that channel's min/max HTLC, fee, time-lock delta" are the path's
# aggregated relay parameters.

F1_SIG = "C19 blinded:amount-above-htlc-maximum"


def blinded_predicate(c):
    """Returns a list of (class, text); class is the stable signature stem."""
    bad = []
    add = lambda k, t: bad.append((k, t))
    hops = c["hops"]
    if not hops:
        return [("route", "route has no hops")]
    pays = [dict(p, hops=p.get("hops") or []) for p in c["blinded"]]
    n = len(hops)
    # which blinded path does the route end in
    nodes = [h["to"] for h in hops]
    chosen = None
    for pi, p in enumerate(pays):
        seq = [p["intro"]] + list(p["hops"])
        k = len(seq)
        if k <= n + 1 and (nodes[n - k:] == seq if k <= n else
                           ([c["src"]] + nodes) == seq):
            chosen = (pi, p, n - k)          # index of the hop arriving at the intro node
            break
    if chosen is None:
        return [("route", "route %s does not end in any of the blinded paths" % nodes)]
    pi, p, ii = chosen
    single = len(p["hops"]) == 0
    final_delta = p["delta"] if single else 0
    if c["finald"] != final_delta:
        add("final-cltv", "final cltv delta used %d, blinded path demands %d" % (c["finald"], final_delta))
    # --- payload structure of the blinded portion (newRoute's back-fill)
    for i, h in enumerate(hops):
        inb = i >= ii and ii >= 0 or ii < 0
        enc, bp = c["hopenc"][i], c["hopbp"][i]
        if not inb:
            if enc[2] != -1 or bp != -1 or c["hoptotal"][i] != 0:
                add("backfill", "hop %d outside the blinded portion carries blinded fields" % i)
            continue
        j = i - ii if ii >= 0 else i + 1
        if enc[0] != pi or enc[1] != j or enc[2] != max(2, p["ctlens"][j]):
            add("backfill", "hop %d carries encrypted data %s, expected path %d hop %d" % (i, enc, pi, j))
        if (bp != -1) != (j == 0) or (j == 0 and bp != pi):
            add("backfill", "hop %d blinding point %s" % (i, bp))
        if i < n - 1:
            if h["amt"] != 0 or h["tl"] != 0 or c["hoptotal"][i] != 0:
                add("backfill", "intermediate blinded hop %d has amt %d tl %d" % (i, h["amt"], h["tl"]))
        if c["hopmpp"][i]:
            add("backfill", "blinded hop %d carries an MPP/AMP record" % i)
    last = hops[-1]
    if last["amt"] != c["amt"]:
        add("final", "receiver amount %d != payment amount %d" % (last["amt"], c["amt"]))
    if c["hoptotal"][-1] != c["total"]:
        add("final", "final hop total_amount_msat %d != %d" % (c["hoptotal"][-1], c["total"]))
    if last["tl"] != c["height"] + final_delta:
        add("final", "final expiry %d != height %d + final delta %d" % (last["tl"], c["height"], final_delta))
    # --- amounts / expiries that really travel: inside the blinded portion
    # every node is paid out of the aggregate, the recipient gets amt at the
    # final expiry
    pub = {}
    for e in c["edges"]:
        if not e.get("hint"):
            pub[(e["chan"], e["from"], e["to"])] = e
    hints = {k: v for k, v in c["hints"]}
    carried = [c["totalamt"]] + [h["amt"] for h in hops[:-1]]
    expiry = [c["totaltl"]] + [h["tl"] for h in hops[:-1]]
    prev = c["src"]
    es = []
    for i in range(0, ii + 1):
        h = hops[i]
        e = pub.get((h["chan"], prev, h["to"]))
        if e is None:
            return bad + [("route", "hop %d: no policy for channel %d from node %d to node %d"
                           % (i, h["chan"], prev, h["to"]))]
        es.append(e)
        prev = h["to"]
    for i in range(ii + 1, n):
        if hops[i]["chan"] != 0:
            add("route", "blinded hop %d names channel %d" % (i, hops[i]["chan"]))
    for i, e in enumerate(es):
        a = carried[i]
        tag = "hop %d chan %d" % (i, e["chan"])
        if e["from"] in c["ignnodes"]:
            add("restr", tag + ": leaves ignored node %d" % e["from"])
        if [e["from"], e["to"]] in c["ignpairs"]:
            add("restr", tag + ": uses ignored pair")
        if a < e["min"]:
            add("range", tag + ": amount %d below min_htlc %d" % (a, e["min"]))
        if e["hasmax"] and a > e["max"]:
            add("range", tag + ": amount %d above max_htlc %d" % (a, e["max"]))
        if e["cap"] > 0 and a > e["cap"] * 1000:
            add("range", tag + ": amount %d above capacity %d sat" % (a, e["cap"]))
        if e["from"] == c["self"]:
            if e["chan"] in hints and a > hints[e["chan"]]:
                add("range", tag + ": amount %d above local bandwidth %d" % (a, hints[e["chan"]]))
            if c["outchans"] and e["chan"] not in c["outchans"]:
                add("restr", tag + ": channel not in the outgoing channel set")
        elif e["dis"]:
            add("range", tag + ": direction is disabled")
    # cleartext forwarding nodes before the introduction node
    for i in range(0, ii):
        fwd = hops[i]["amt"]
        o = out_fee(es[i + 1], fwd)
        need = max(0, o + in_fee(es[i], fwd + o))
        got = carried[i] - fwd
        if got < need:
            add("fee", "node %d keeps fee %d, policy demands %d" % (hops[i]["to"], got, need))
        gap = expiry[i] - hops[i]["tl"]
        if gap < es[i + 1]["delta"]:
            add("delta", "node %d gets expiry gap %d, time lock delta is %d"
                % (hops[i]["to"], gap, es[i + 1]["delta"]))
    # --- the blinded portion
    amt = c["amt"]
    a_in = carried[ii] if ii >= 0 else None      # what arrives at the introduction node
    tl_in = expiry[ii] if ii >= 0 else None
    if amt > p["max"]:
        add(F1_SIG + ("-intro-only" if single else ""),
            "amount %d entering the blinded path exceeds its htlc_maximum_msat %d%s"
            % (amt, p["max"], " (introduction-node-only path: no edge carries the limit)" if single else ""))
    if amt < p["min"]:
        add("C19 blinded:amount-below-htlc-minimum" + ("-intro-only" if single else ""),
            "amount %d entering the blinded path is below its htlc_minimum_msat %d" % (amt, p["min"]))
    if not single and ii >= 0:
        agg = p["base"] + (amt * p["rate"]) // 1000000
        got = a_in - amt
        need_node = max(0, agg + in_fee(es[ii], amt + agg))
        inb = in_fee(es[ii], amt + agg)
        if got < need_node:
            add("fee", "introduction node keeps %d, aggregate+inbound policy demands %d" % (got, need_node))
        elif got < agg and inb < 0 and got == need_node:
            # attributable to ONE mechanism: the shortfall is exactly the
            # (floored) inbound discount of the introduction node
            add("C19 blinded:inbound-discount-cuts-aggregate-fee",
                "blinded path is left %d, its aggregated fee is %d: the inbound discount %d of the "
                "introduction node's incoming channel %d was netted against the whole path's fee"
                % (got, agg, inb, es[ii]["chan"]))
        elif got < agg:
            add("fee", "blinded path is left %d, its aggregated fee is %d" % (got, agg))
        if tl_in - last["tl"] < p["delta"]:
            add("delta", "blinded path gets expiry gap %d, its cltv_expiry_delta is %d"
                % (tl_in - last["tl"], p["delta"]))
    if single and ii >= 0:
        if a_in != amt or tl_in != last["tl"]:
            add("final", "recipient is sent %d/%d, payload says %d/%d" % (a_in, tl_in, amt, last["tl"]))
    # --- totals and limits
    if c["totalamt"] - amt > c["feelimit"]:
        add("limit", "total fees %d exceed fee limit %d" % (c["totalamt"] - amt, c["feelimit"]))
    if c["totaltl"] > c["cltvlimit"] + c["height"] + final_delta:
        add("limit", "total time lock %d exceeds cltv limit %d (+height+final)" % (c["totaltl"], c["cltvlimit"]))
    if c["lasthop"] >= 0:
        # the search ends at the NUMS dummy target (resp. the introduction
        # node of an introduction-node-only path): the node in front of it
        want = nodes[-1] if not single else (nodes[-2] if n >= 2 else c["src"])
        if want != c["lasthop"]:
            add("restr", "node %d in front of the search target is not the required last hop %d"
                % (want, c["lasthop"]))
    if sum(c["sizes"]) > MAX_PAYLOAD or not c["sphinxok"] or c["onionsize"] > MAX_PAYLOAD:
        # attributable to the final-hop estimate iff (a) what findPath itself
        # added up did fit, (b) every other hop is no bigger than estimated and
        # (c) the final hop is short by exactly the records lastHopPayloadSize
        # leaves out: total_amount_msat (+ destination custom records), plus
        # the growth of the payload-length varint they may cause
        est = c["lastsize"]
        bs = {(f, t): z for f, t, z in (c.get("bsizes") or [])}
        others_ok = True
        for i, e in enumerate(c["path"]):
            if i == 0:
                continue
            pe = bs.get((e["from"], e["to"]), c["sizes"][i - 1])
            est += pe
            if i - 1 < n - 1 and c["sizes"][i - 1] > pe:
                others_ok = False
        tot = c["total"]
        missing = 2 + max(1, (tot.bit_length() + 7) // 8)
        if c.get("customlen", -1) >= 0:
            cl = c["customlen"]
            missing += 5 + (1 if cl < 253 else 3) + cl
        short = c["sizes"][-1] - c["lastsize"]
        encl = max(2, p["ctlens"][-1])
        # through the real payment session the final hop is sized as a
        # cleartext hop: additionally short by the encrypted data record and,
        # for an introduction-node-only path, the blinding point
        sess_missing = (2 + max(1, (tot.bit_length() + 7) // 8)) + \
            (1 + (1 if encl < 253 else 3) + encl) + (35 if single else 0)
        if (c["sphinxok"] and c.get("session") and est <= MAX_PAYLOAD and others_ok
                and sess_missing <= short <= sess_missing + 2):
            add("C19 blinded:session-final-hop-sized-as-cleartext",
                "onion payload %d bytes does not fit %d: RequestRoute keeps the blinded path set out of "
                "RestrictParams, findPath sized the final hop as cleartext (%d bytes, real %d: encrypted "
                "data %d bytes%s, total_amount_msat); its own total %d fits"
                % (sum(c["sizes"]), MAX_PAYLOAD, c["lastsize"], c["sizes"][-1], encl,
                   ", blinding point" if single else "", est))
        elif (c["sphinxok"] and not c.get("session") and est <= MAX_PAYLOAD and others_ok
                and missing <= short <= missing + 2):
            add("C19 blinded:onion-payload-exceeds-1300",
                "onion payload %d bytes does not fit %d: findPath's estimate of the final hop is %d, "
                "real %d (total_amount_msat%s not counted by lastHopPayloadSize), its own total %d fits"
                % (sum(c["sizes"]), MAX_PAYLOAD, c["lastsize"], c["sizes"][-1],
                   " + custom records" if c.get("customlen", -1) >= 0 else "", est))
        else:
            add("payload", "onion payload %d bytes does not fit %d (findPath's total estimate %d, final "
                "hop estimated %d real %d%s)" % (sum(c["sizes"]), MAX_PAYLOAD, est, c["lastsize"],
                                                 c["sizes"][-1], ", session-style restrictions"
                                                 if c.get("session") else ""))
    if c["totalamt"] != c["recv"] + sum(c["hopfees"]) or c["totfees"] != sum(c["hopfees"]):
        add("totals", "TotalAmount %d != receiver %d + hop fees %s" % (c["totalamt"], c["recv"], c["hopfees"]))
    # time locks: public gaps + the blinded gap add up
    gaps = [expiry[i] - hops[i]["tl"] for i in range(0, max(ii, 0))]
    if ii >= 0:
        gaps.append(tl_in - last["tl"])
    if c["totaltl"] != c["height"] + final_delta + sum(gaps):
        add("totals", "time locks do not add up to TotalTimeLock")
    return bad


def validate_predicate(c):
    """Set-up of a blinded payment (model independent): Validate refuses exactly
    htlc_maximum < htlc_minimum; a path set with differing feature vectors is
    refused; the search target is the NUMS dummy unless an introduction-node-only
    path exists, whose cltv delta then is the final delta; a source that is an
    introduction node is refused for foreign sources."""
    bad = []
    err = c.get("err") or ""
    pays = [dict(p, hops=p.get("hops") or []) for p in c["blinded"]]
    inval = [p for p in pays if p["max"] < p["min"]]
    if err.startswith("validate: invalid htlc") != bool(inval):
        bad.append("Validate: error %r but %d payments have htlc_maximum < htlc_minimum" % (err, len(inval)))
    if inval or err.startswith(("validate", "pathset")):
        if err.startswith("pathset: all blinded"):
            f0 = pays[0]["feat"] in (0, 1)
            if all((p["feat"] in (0, 1)) == f0 and (f0 or p["feat"] == pays[0]["feat"]) for p in pays):
                bad.append("path set refused although all feature vectors agree")
        return bad
    single = [p for p in pays if not p["hops"]]
    want_dst = single[0]["intro"] if single else c["nums"]
    want_fd = single[0]["delta"] if single else 0
    if c["dst"] != want_dst or c["finald"] != want_fd:
        bad.append("target %d / final delta %d, expected %d / %d" % (c["dst"], c["finald"], want_dst, want_fd))
    used = single[:1] if single else pays
    selfintro = any(p["intro"] == c["src"] for p in used)
    if bool(c.get("selfintro")) != selfintro:
        bad.append("IsIntroNode(source) = %s" % c.get("selfintro"))
    return bad


TWO63 = 1 << 63


def outside_guards(c):
    """Domain guard of Route/Model.v ("amounts in unbounded Z, no Go wrap"):
    InboundFee.CalcFee computes clamp(rate) * int64(amt) in int64 and
    CachedEdgePolicy.ComputeFee amt * rate in uint64.  A row is outside the
    domain when the largest amount seen in it (payment, route, every
    processEdge probe; x2 for the pivot's own fee that is not observable) times
    the largest (clamped) fee rate of its graph reaches 2^63: there lnd's
    arithmetic wraps and the model (and the python predicate) compute with
    different numbers.  Such rows are counted, never judged."""
    es = c.get("edges") or c.get("cands") or []
    if not es:
        return False
    rate = max([min(abs(e.get("irate", 0)), 10000000) for e in es] +
               [e.get("rate", 0) for e in es] + [1])
    amts = [c.get("amt", 0), c.get("totalamt", 0), c.get("total", 0), c.get("net", 0)]
    amts += [h["amt"] for h in c.get("hops") or []]
    amts += [e[3] for e in c.get("evs") or [] if e[0] == 1]
    return 2 * max(amts) * rate >= TWO63


def stats(rows):
    routes = [c for c in rows if c["kind"] == "route"]
    hist = lambda f, rs: {str(k): v for k, v in sorted(
        __import__("collections").Counter(f(c) for c in rs).items(), key=lambda kv: str(kv[0]))}
    tight = 0
    for c in routes:
        edges = {(e["chan"], e["from"], e["to"]): e for e in c["edges"]}
        prev, carried = c["src"], [c["totalamt"]] + [h["amt"] for h in c["hops"][:-1]]
        hints = {k: v for k, v in c["hints"]}
        t = (c["totalamt"] - c["amt"] == c["feelimit"]) or \
            (c["totaltl"] == c["cltvlimit"] + c["height"] + c["finald"]) or \
            sum(c["sizes"]) >= MAX_PAYLOAD - 1
        for h, a in zip(c["hops"], carried):
            e = edges.get((h["chan"], prev, h["to"]))
            prev = h["to"]
            if e and (a == e["min"] or (e["hasmax"] and a == e["max"]) or
                      (e["cap"] > 0 and a > (e["cap"] - 1) * 1000) or hints.get(e["chan"]) == a):
                t = True
        tight += bool(t)
    br = [c for c in rows if c["kind"] == "broute"]
    bn = [c for c in rows if c["kind"] == "bnoroute"]
    hr = [c for c in routes if c.get("stream") == "hint"]

    def hint_hops(c):
        hc = {e["chan"] for e in c["edges"] if e.get("hint")}
        return sum(1 for h in c["hops"] if h["chan"] in hc)

    def bl(c):
        pays = [dict(p, hops=p.get("hops") or []) for p in c["blinded"]]
        last = c["hops"][-1]["to"]
        for p in pays:
            if (p["hops"] or [p["intro"]])[-1] == last:
                return p
        return pays[0]
    blinded = {
        "rows": hist(lambda c: c["kind"] + ":" + (c.get("stream") or ""), br + bn),
        "variants_routed": hist(lambda c: c["variant"].split("-")[0] if c.get("stream") == "blinded"
                                else c["variant"], br),
        "unroutable": hist(lambda c: (c.get("err") or "")[:44], bn),
        "paths_in_set": hist(lambda c: len(c["blinded"]), br + bn),
        "blinded_hops_of_chosen_path": hist(lambda c: len(bl(c)["hops"]), br),
        "public_hops_before_intro": hist(lambda c: len(c["hops"]) - len(bl(c)["hops"]), br),
        "amount_vs_htlc_maximum": hist(lambda c: "above+1" if c["amt"] == bl(c)["max"] + 1 else
                                       "above" if c["amt"] > bl(c)["max"] else
                                       "equal" if c["amt"] == bl(c)["max"] else "below", br),
        "amount_vs_htlc_minimum": hist(lambda c: "below" if c["amt"] < bl(c)["min"] else
                                       "equal" if c["amt"] == bl(c)["min"] else
                                       "above+1" if c["amt"] == bl(c)["min"] + 1 else "above", br),
        "noroute_with_amount_below_every_minimum": sum(
            1 for c in bn if c.get("edges") and all(c["amt"] < p["min"] for p in c["blinded"])),
        "mpp_partial_amount": sum(1 for c in br if c["total"] != c["amt"]),
        "fee_limit_exactly_tight": sum(1 for c in br if c["totalamt"] - c["amt"] == c["feelimit"]),
        "cltv_limit_exactly_tight": sum(1 for c in br if c["totaltl"] == c["cltvlimit"] + c["height"] + c["finald"]),
        "payload_at_limit_or_above": sum(1 for c in br if sum(c["sizes"]) >= MAX_PAYLOAD - 1),
        "with_last_hop_restriction": sum(1 for c in br + bn if c["lasthop"] >= 0),
        "with_outgoing_chan_restriction": sum(1 for c in br + bn if c["outchans"]),
        "session_style_restrictions": sum(1 for c in br if c.get("session")),
        "intro_is_source": sum(1 for c in br + bn if c.get("selfintro")),
    }
    return {
        "blinded": blinded,
        "hint_stream": {
            "routes": len(hr),
            "hint_hops_on_route": hist(hint_hops, hr),
            "unroutable": sum(1 for c in rows if c["kind"] == "noroute" and c.get("stream") == "hint"),
            "variants_routed": hist(lambda c: c["variant"], hr),
        },
        "row_kinds": hist(lambda c: c["kind"], rows),
        "variants_routed": hist(lambda c: c["variant"], routes),
        "variants_unroutable": hist(lambda c: c["variant"], [c for c in rows if c["kind"] == "noroute"]),
        "noroute_errors": hist(lambda c: c.get("err", "")[:40], [c for c in rows if c["kind"] == "noroute"]),
        "hops_per_route": hist(lambda c: len(c["hops"]), routes),
        "nodes": hist(lambda c: 1 + max(max(e["from"], e["to"]) for e in c["edges"]), routes),
        "routes_with_parallel_channels_on_path": sum(
            1 for c in routes if any(
                sum(1 for e in c["edges"] if (e["from"], e["to"]) == (p["from"], p["to"])) > 1
                for p in c["path"])),
        "routes_with_negative_inbound_on_path": sum(
            1 for c in routes if any(p["ibase"] < 0 or p["irate"] < 0 for p in c["path"])),
        "routes_with_fee_floor_active": sum(
            1 for c in routes if any(f == 0 for f in c["hopfees"][:-1])),
        "routes_self_payment": sum(1 for c in routes if c["src"] == c["dst"]),
        "routes_source_not_self": sum(1 for c in routes if c["src"] != c["self"]),
        "routes_via_hint": sum(1 for c in routes if any(
            e.get("hint") and (e["chan"], e["to"]) in {(h["chan"], h["to"]) for h in c["hops"]}
            for e in c["edges"])),
        "routes_with_a_constraint_exactly_tight": tight,
        "getedge_result": hist(lambda c: ("local" if c.get("local") else "net") + ":" +
                               ("none" if c.get("res") is None else "edge"),
                               [c for c in rows if c["kind"] == "getedge"]),
    }


def run(ctx):
    pr = ctx.proof_stage(MODULE, THEOREMS, TARGETS, extra_trusted=[
        "onion payload sizes are an oracle: the checker is given the byte sizes measured on the "
        "real sphinx path of the returned route",
        "C19_blinded_*: a blinded payment path is (introduction node, blinded node ids, aggregated "
        "base/rate/cltv delta/htlc min/max); node ids of blinded hops are taken as distinct from all "
        "graph nodes; Route/Blinded.v mirrors toRouteHints INCLUDING HasMaxHTLC=false on the aggregate "
        "edge (finding C19-F1: C19_blinded_max_refuted)",
        "float64 probability / getProbabilityBasedDist enter the Dijkstra theorems as the abstract "
        "structure keyops with the laws keyops_ok (on the domain [0,1]: <= reflexive and transitive, "
        "closed under *, p*e <= p, distance monotone in weight and antitone in probability) = "
        "monotonicity of IEEE-754 round-to-nearest operations; hypothesis of C19_chain_stable / "
        "C19_pops_sorted / C19_findpath_sound / C19_findpath_route_ok, proved for the exact instance "
        "ZK and checked on every replayed step for float64",
        "Coq primitive floats (Floats library, evaluated by vm_compute on hardware binary64) are used "
        "ONLY by the search replay Route/DijkstraExec.v, not by any theorem",
        "container/heap is modelled as: Pop returns some entry that is minimal w.r.t. distanceHeap.Less",
        "C19_hop_passes_C09 is stated against Policy.Model (C09); height/bandwidth/update "
        "availability at forwarding time are hypotheses of that theorem"])
    env = {}
    if ctx.thorough:
        env["VERIF_ROUNDS"] = "6"
    if ctx.replay:
        # re-run exactly the recorded case (same seed, same case index and all
        # its boundary variants) on the current tree
        rp = json.load(open(ctx.replay))
        case = (rp.get("detail") or {}).get("case") or {}
        env["VERIF_SEED"] = str(rp.get("seed", ctx.seed))
        stream = case.get("stream") or ""
        if stream in ("hint", "blinded", "directed", "session"):
            env["VERIF_ONLY_" + stream[0].upper()] = str(case.get("case", 0))
        elif case.get("kind") == "getedge":
            env["VERIF_ONLY_GE"] = str(case.get("case", 0))
        elif "case" in case:
            env["VERIF_ONLY"] = str(case["case"])
        ctx.note("replaying %s (seed %s, case %s)" % (ctx.replay, env["VERIF_SEED"], case.get("case")))
    rc, trace, out = run_harness(ctx.uid(), "routing", HARNESS, "^TestVerifRoute$",
                                 env=env, timeout=1500)
    rows = read_jsonl(trace)
    if rc != 0 or not rows:
        ctx.violation("harness_failed", "TestVerifRoute", {"log": out[-4000:]},
                      signature="harness", failing_input=False)
        return
    # rows outside the no-wrap domain of the model are counted and set aside
    outside = [c for c in rows if outside_guards(c)]
    if outside:
        rows = [c for c in rows if not outside_guards(c)]
        ctx.note("%d of %d rows are outside the no-wrap domain (largest amount x largest clamped fee "
                 "rate >= 2^63: InboundFee.CalcFee / ComputeFee wrap in Go) and were not judged: %s"
                 % (len(outside), len(outside) + len(rows),
                    dict(__import__("collections").Counter(
                        (c.get("stream") or "base") + ":" + c["kind"] for c in outside))))
    routes = [c for c in rows if c["kind"] == "route"]
    # (3) property predicate on every route the implementation returned
    nfail = 0
    for c in routes:
        f = predicate(c)
        if f:
            nfail += 1
            if nfail <= 3:
                ctx.violation("impl_violates_predicate", "C19_checker_sound",
                              {"case": c, "violated_clauses": f},
                              signature="route %s: %s" % (c["variant"], f[0]))
    # (3c) routes that end in a blinded payment path; one violation per class
    broutes = [c for c in rows if c["kind"] == "broute"]
    brows = [c for c in rows if c["kind"] in ("broute", "bnoroute")]
    bclasses = {}
    bfail = __import__("collections").Counter()
    for c in broutes:
        f = blinded_predicate(c)
        c["_classes"] = sorted({k for k, _ in f})
        for k in c["_classes"]:
            bfail[k] += 1
            if k not in bclasses or (c.get("stream") == "directed"
                                     and bclasses[k].get("stream") != "directed"):
                bclasses[k] = c
    for k in sorted(bclasses):
        c = bclasses[k]
        sig = k if k.startswith("C19 blinded:") else "blinded route %s: %s" % (c["variant"], k)
        ctx.violation("impl_violates_predicate",
                      "C19_blinded_max_refuted" if k.startswith(F1_SIG) else "C19_checker_sound",
                      {"case": {x: y for x, y in c.items() if x != "_classes"},
                       "violated_clauses": [t for kk, t in blinded_predicate(c) if kk == k],
                       "rows_with_this_class": bfail[k]},
                      signature=sig + (" [%s]" % c["variant"] if k.startswith("C19 blinded:") else ""))
    # (3d) payments driven through the real payment session with BOLT11 hop
    # hints: judged from the user-level hints
    srows = [c for c in rows if c.get("stream") == "session"]
    nsessfail = 0
    for c in srows:
        f = session_predicate(c)
        if f:
            nsessfail += 1
            if nsessfail <= 3:
                ctx.violation("impl_violates_predicate", "C19_checker_sound",
                              {"case": c, "violated_clauses": f},
                              signature="session %s: %s" % (c["variant"], f[0][:70]))
    nvfail = 0
    for c in brows:
        f = validate_predicate(c)
        if f:
            nvfail += 1
            if nvfail <= 2:
                ctx.violation("impl_violates_predicate", "C19_blinded_findpath_route_ok",
                              {"case": c, "violated_clauses": f},
                              signature="blinded setup %s: %s" % (c["variant"], f[0][:50]))
    panics = [c for c in brows if "PANIC" in (c.get("err") or "")]
    if panics:
        ctx.note("NewBlindedPaymentPathSet panicked (nil Features of a later path while the first "
                 "path has features, blinding.go:117) in %d generated cases, e.g. blinded case %d; "
                 "outside C19's statement (no route is returned), recorded only" %
                 (len(panics), panics[0]["case"]))
    # (3b) chain stability as observable on the implementation's search trace
    traced = [c for c in rows if c["kind"] in ("route", "noroute") and c.get("evs")]
    traced += [blinded_search_view(c) for c in brows if c.get("evs")]
    nsfail = 0
    for c in traced:
        f = search_predicate(c)
        if f:
            nsfail += 1
            if nsfail <= 3:
                ctx.violation("impl_violates_predicate", "C19_chain_stable",
                              {"case": c, "violated_clauses": f},
                              signature="search %s: %s" % (c["variant"], f[0].split("(")[0][:60]))
    # (4) correspondence
    checked = [c for c in rows if c["kind"] in ("route", "getedge")]
    terms = [case_term(c) for c in checked]
    # both model evaluations (route rows; search traces, see 4b) run concurrently
    sterms = [scase_term(c) for c in traced]
    from concurrent.futures import ThreadPoolExecutor
    bchecked = [c for c in brows if c.get("edges") is not None and c.get("dst", -1) >= 0
                and not (c.get("err") or "").startswith(("validate", "pathset", "hints"))]
    hchecked = [c for c in srows if c.get("userhints")]
    bchecked = bchecked + hchecked
    bterms = [hints_term(c) if c.get("stream") == "session" else bcase_term(c) for c in bchecked]
    with ThreadPoolExecutor(max_workers=3) as ex:
        f1 = ex.submit(coq_mismatches, ctx.uid(), IMPORTS, terms, scope="Z_scope",
                       shard=max(40, len(terms) // NCPU + 1))
        f2 = ex.submit(coq_mismatches, ctx.uid() + "s", SIMPORTS, sterms, scope="Z_scope",
                       mism="smismatches", shard=max(40, len(sterms) // NCPU + 1))
        f3 = ex.submit(coq_mismatches, ctx.uid() + "b", BIMPORTS, bterms, scope="Z_scope",
                       mism="bmismatches", shard=max(40, len(bterms) // NCPU + 1))
        ok, bad, logs = f1.result()
        sok, sbad, slogs = f2.result()
        bok, bbad, blogs = f3.result()
    if not bok:
        ctx.violation("correspondence_mismatch", "Route.BlindedExec (model evaluation failed)",
                      {"logs": blogs}, signature="blinded-model-eval", failing_input=False)
    seen_b = set()
    for ci, sub in bbad:
        c = bchecked[ci]
        # a row on which the predicate already reports a finding class and
        # whose only model complaint is the checker (0) is the same finding
        cls = [k for k in c.get("_classes", []) if k.startswith("C19 blinded:")]
        if list(sub) == [0] and cls:
            sig = cls[0] + " (model checker) [%s]" % c["variant"]
            key = cls[0]
        else:
            sig = "blinded mismatch " + ",".join(str(i) for i in sub)
            key = sig
        if key in seen_b:
            continue
        seen_b.add(key)
        if sum(1 for k in seen_b if not k.startswith("C19 blinded:")) > 4:
            continue
        ctx.violation("correspondence_mismatch", "Route.BlindedExec.check_bcase",
                      {"case": {x: y for x, y in c.items() if x != "_classes"},
                       "failed_subchecks": {str(i): SUBCHECK.get(i, "?") for i in sub}},
                      signature=sig, failing_input=True)
    if not ok:
        ctx.violation("correspondence_mismatch", "Route.Exec (model evaluation failed)",
                      {"logs": logs}, signature="model-eval", failing_input=False)
    for ci, sub in bad[:3]:
        c = checked[ci]
        ctx.violation("correspondence_mismatch", "Route.Exec.check_case",
                      {"case": c, "failed_subchecks": {str(i): SUBCHECK.get(i, "?") for i in sub}},
                      signature="route mismatch " + ",".join(str(i) for i in sub),
                      failing_input=True)
    # (4b) replay of the recorded search on the Dijkstra model (float64 = Coq
    # primitive floats): every expansion is a minimal pop, every processEdge
    # call is the model's relaxation, the unravelled chain is the returned path
    if not sok:
        ctx.violation("correspondence_mismatch", "Route.DijkstraExec (model evaluation failed)",
                      {"logs": slogs}, signature="search-model-eval", failing_input=False)
    for ci, sub in sbad[:3]:
        c = traced[ci]
        ctx.violation("correspondence_mismatch", "Route.DijkstraExec.check_scase",
                      {"case": c, "failed_subchecks": {str(i): subcheck_name(i) for i in sub}},
                      signature="search mismatch " + ",".join(str(i) for i in sub if i < 100),
                      failing_input=True)
    if not pr["ok"] and not ctx.violations:
        ctx.violation("proof_broken", ", ".join(pr["broken"]) or "Route build",
                      {"log": pr["log"][-4000:]}, signature="proof", failing_input=False)
    if ctx.thorough and pr["ok"]:
        ctx.coqchk(["LV.Route.Props"])
    st = stats(rows)
    ctx.cov.update({
        "evaluations": len(rows),
        "distinct_nontrivial": distinct_count(
            [c for c in routes if len(c["hops"]) >= 2],
            lambda c: (c["edges"], c["hops"], c["totalamt"], c["feelimit"], c["cltvlimit"], c["hints"])),
        "rule": "one evaluation = one findPath(+newRoute) call or one edgeUnifier.getEdge call on a "
                "seeded graph; non-trivial = returned route with >= 2 hops; distinct by "
                "(graph, hops, total, limits, hints)",
        "routes_returned": len(routes),
        "traces_validated_against_impl": len(checked),
        "predicate_failures": nfail,
        "outside_guards": len(outside),
        "outside_guards_by_stream": dict(__import__("collections").Counter(
            (c.get("stream") or "base") + ":" + c["kind"] for c in outside)),
        "session_rows": len(srows),
        "session_routes": sum(1 for c in srows if c["kind"] == "route"),
        "session_routes_by_hinted_hops": {str(k): v for k, v in sorted(__import__("collections").Counter(
            sum(1 for h in c["hops"] if h["chan"] in set(c.get("hintchans") or []))
            for c in srows if c["kind"] == "route").items())},
        "session_route_hints_per_payment": {str(k): v for k, v in sorted(__import__("collections").Counter(
            len(c.get("userhints") or []) for c in srows).items())},
        "session_predicate_failures": nsessfail,
        "session_hint_conversions_checked_against_model": len(hchecked),
        "blinded_routes": len(broutes),
        "blinded_rows_checked_against_model": len(bchecked),
        "blinded_predicate_classes": dict(bfail),
        "blinded_correspondence_mismatches": len(bbad),
        "correspondence_mismatches": len(bad),
        "search_traces_replayed": len(traced),
        "search_traces_without_route": sum(1 for c in traced if c["kind"] == "noroute"),
        "search_predicate_failures": nsfail,
        "search_replay_mismatches": len(sbad),
        "search_expansions": sum(sum(1 for e in c["evs"] if e[0] == 0) for c in traced),
        "searches_with_a_node_relaxed_from_2+_pivots": sum(
            1 for c in traced
            if any(n > 1 for n in __import__("collections").Counter(
                fr for fr, _to in {(e[1], e[2]) for e in c["evs"] if e[0] == 1}).values())),
        "searches_with_5+_expansions": sum(
            1 for c in traced if sum(1 for e in c["evs"] if e[0] == 0) >= 5),
        "search_processEdge_calls": sum(sum(1 for e in c["evs"] if e[0] == 1) for c in traced),
        "samples": [{"hops": c["hops"], "totalamt": c["totalamt"], "amt": c["amt"]} for c in routes[:2]],
    })
    ctx.cov.update(st)
    ctx.assumptions += [
        "amounts < 2^63 and fee products < 2^63 (no Go wrap-around, not modelled): a row whose largest "
        "observed amount (x2) times the largest clamped fee rate of its graph (inbound rates clamp at "
        "+-10^7 ppm) reaches 2^63 is set aside and COUNTED (coverage.outside_guards), not judged; this "
        "happens when a +1000 % inbound fee inflates the amount above ~4.6*10^11 msat and another "
        "+-1000 % inbound rate is applied to it (InboundFee.CalcFee: rate * int64(amt) wraps)",
        "blinded payment paths: the encrypted data itself, the blinding points and the feature "
        "vectors are opaque (only their lengths / identities are compared); payload sizes of blinded "
        "hops are oracle values measured on the real code; the last-hop restriction is read as lnd "
        "applies it (to the node in front of the NUMS dummy target)",
        "C19_chain_stable / C19_findpath_sound hold under the domain guards stated in the theorems "
        "(probability source answers in [0,1]; amountToSend*delta*15 and the accumulated weight "
        "< 2^63; unsigned policy fields) and under keyops_ok = monotonicity of the IEEE-754 float64 "
        "operations used for the heap key; both are re-checked on every replayed processEdge call "
        "(subcheck 9); without them the *_refuted examples show a finalised entry being rewritten",
        "in C19_findpath_sound the edge handed to processEdge is assumed to satisfy offered_b (what "
        "C19_get_edge_sound proves about getEdge); the replay evaluates offered_b on the real runs"]
