"""C11 helper: an INDEPENDENT reference of every crypto primitive brontide takes from outside
(secp256k1 ECDH as BOLT-8 defines it, HKDF-SHA256, ChaCha20-Poly1305 with the BOLT-8 nonce
encoding) and of the BOLT-8 handshake / framing computed from the four private keys.  Pure
python (hashlib / hmac only); nothing of lnd, btcec or x/crypto is involved."""
import hashlib
import hmac
import struct

P = 2 ** 256 - 2 ** 32 - 977
NORD = 0xFFFFFFFFFFFFFFFFFFFFFFFFFFFFFFFEBAAEDCE6AF48A03BBFD25E8CD0364141
GX = 0x79BE667EF9DCBBAC55A06295CE870B07029BFCDB2DCE28D959F2815B16F81798
GY = 0x483ADA7726A3C4655DA4FBFC0E1108A8FD17B448A68554199C47D08FFB10D4B8


def _jdbl(p):
    x, y, z = p
    if y == 0 or z == 0:
        return (0, 1, 0)
    s = 4 * x * y * y % P
    m = 3 * x * x % P
    x3 = (m * m - 2 * s) % P
    y3 = (m * (s - x3) - 8 * pow(y, 4, P)) % P
    return (x3, y3, 2 * y * z % P)


def _jadd(p, q):
    if p[2] == 0:
        return q
    if q[2] == 0:
        return p
    x1, y1, z1 = p
    x2, y2, z2 = q
    z1s, z2s = z1 * z1 % P, z2 * z2 % P
    u1, u2 = x1 * z2s % P, x2 * z1s % P
    s1, s2 = y1 * z2s * z2 % P, y2 * z1s * z1 % P
    if u1 == u2:
        return _jdbl(p) if s1 == s2 else (0, 1, 0)
    h, r = (u2 - u1) % P, (s2 - s1) % P
    h2 = h * h % P
    h3 = h2 * h % P
    x3 = (r * r - h3 - 2 * u1 * h2) % P
    y3 = (r * (u1 * h2 - x3) - s1 * h3) % P
    return (x3, y3, h * z1 * z2 % P)


def mult(k, pt):
    """k * pt, pt affine (x, y); returns affine."""
    acc, add = (0, 1, 0), (pt[0], pt[1], 1)
    while k:
        if k & 1:
            acc = _jadd(acc, add)
        add = _jdbl(add)
        k >>= 1
    zi = pow(acc[2], P - 2, P)
    return (acc[0] * zi * zi % P, acc[1] * zi * zi * zi % P)


def pub(k):
    return mult(k, (GX, GY))


def ser(pt):
    """33-byte compressed encoding: parity byte, x as EXACTLY 32 big-endian bytes."""
    return bytes([2 + (pt[1] & 1)]) + pt[0].to_bytes(32, "big")


def ecdh(k, pt):
    """BOLT-8: sha256 of the compressed encoding of k * pt; also returns the shared point."""
    s = mult(k, pt)
    return hashlib.sha256(ser(s)).digest(), s


def hkdf2(salt, ikm):
    prk = hmac.new(salt, ikm, hashlib.sha256).digest()
    t1 = hmac.new(prk, b"\x01", hashlib.sha256).digest()
    t2 = hmac.new(prk, t1 + b"\x02", hashlib.sha256).digest()
    return t1, t2


def _rotl(v, c):
    return ((v << c) & 0xffffffff) | (v >> (32 - c))


def _chacha_block(key, counter, nonce):
    st = list(struct.unpack("<16I", b"expand 32-byte k" + key + struct.pack("<I", counter) + nonce))
    w = st[:]

    def qr(a, b, c, d):
        w[a] = (w[a] + w[b]) & 0xffffffff; w[d] = _rotl(w[d] ^ w[a], 16)
        w[c] = (w[c] + w[d]) & 0xffffffff; w[b] = _rotl(w[b] ^ w[c], 12)
        w[a] = (w[a] + w[b]) & 0xffffffff; w[d] = _rotl(w[d] ^ w[a], 8)
        w[c] = (w[c] + w[d]) & 0xffffffff; w[b] = _rotl(w[b] ^ w[c], 7)
    for _ in range(10):
        qr(0, 4, 8, 12); qr(1, 5, 9, 13); qr(2, 6, 10, 14); qr(3, 7, 11, 15)
        qr(0, 5, 10, 15); qr(1, 6, 11, 12); qr(2, 7, 8, 13); qr(3, 4, 9, 14)
    return struct.pack("<16I", *[(w[i] + st[i]) & 0xffffffff for i in range(16)])


def _poly1305(key, msg):
    r = int.from_bytes(key[:16], "little") & 0x0ffffffc0ffffffc0ffffffc0fffffff
    s = int.from_bytes(key[16:], "little")
    acc, p = 0, (1 << 130) - 5
    for i in range(0, len(msg), 16):
        acc = (acc + int.from_bytes(msg[i:i + 16] + b"\x01", "little")) * r % p
    return ((acc + s) & ((1 << 128) - 1)).to_bytes(16, "little")


def _pad16(b):
    return b + b"\x00" * (-len(b) % 16)


def seal(key, n, ad, pt):
    """ChaCha20-Poly1305 (RFC 8439); BOLT-8 nonce: 32 zero bits then the counter little-endian."""
    nonce = b"\x00" * 4 + struct.pack("<Q", n)
    otk = _chacha_block(key, 0, nonce)[:32]
    ct = b""
    for i in range(0, len(pt), 64):
        ks = _chacha_block(key, 1 + i // 64, nonce)
        ct += bytes(a ^ b for a, b in zip(pt[i:i + 64], ks))
    mac = _poly1305(otk, _pad16(ad) + _pad16(ct) + struct.pack("<QQ", len(ad), len(ct)))
    return ct + mac


def sha(*parts):
    return hashlib.sha256(b"".join(parts)).digest()


def handshake(ls, rs, ei, er):
    """The whole BOLT-8 handshake from the private keys (ints).  Returns acts, the (h, ck, temp_k)
    triple after each act, the final keys and the three shared points."""
    LS, RS, EI, ER = pub(ls), pub(rs), pub(ei), pub(er)
    h = sha(b"Noise_XK_secp256k1_ChaChaPoly_SHA256")
    ck = h
    h = sha(h, b"lightning")
    h = sha(h, ser(RS))
    # act one
    h = sha(h, ser(EI))
    es, p_es = ecdh(ei, RS)
    es_r, _ = ecdh(rs, EI)
    ck, t1 = hkdf2(ck, es)
    c = seal(t1, 0, h, b"")
    h = sha(h, c)
    a1, st1 = b"\x00" + ser(EI) + c, (h, ck, t1)
    # act two
    h = sha(h, ser(ER))
    ee, p_ee = ecdh(er, EI)
    ck, t2 = hkdf2(ck, ee)
    c = seal(t2, 0, h, b"")
    h = sha(h, c)
    a2, st2 = b"\x00" + ser(ER) + c, (h, ck, t2)
    # act three
    c = seal(t2, 1, h, ser(LS))
    h = sha(h, c)
    se, p_se = ecdh(ls, ER)
    ck, t3 = hkdf2(ck, se)
    t = seal(t3, 0, h, b"")
    h = sha(h, t)
    a3, st3 = b"\x00" + c + t, (h, ck, t3)
    sk, rk = hkdf2(ck, b"")
    return {"acts": (a1, a2, a3), "states": (st1, st2, st3), "sk": sk, "rk": rk, "ck": ck,
            "points": (p_es, p_ee, p_se), "sym": es == es_r, "ls_pub": ser(LS)}


def frame(key, n, msg):
    return seal(key, n, b"", struct.pack(">H", len(msg))) + seal(key, n + 1, b"", msg)


def rotate(salt, key):
    return hkdf2(salt, key)      # (salt', key')


def selftest():
    """BOLT-8 appendix A test vector (initiator side) and RFC 8439 2.8.2."""
    rs, ls = int("21" * 32, 16), int("11" * 32, 16)
    ei, er = int("12" * 32, 16), int("22" * 32, 16)
    r = handshake(ls, rs, ei, er)
    ok = r["acts"][0].hex() == ("00036360e856310ce5d294e8be33fc807077dc56ac80d95d9cd4ddbd21325eff73f7"
                                "0df6086551151f58b8afe6c195782c6a")
    ok &= r["acts"][1].hex() == ("0002466d7fcae563e5cb09a0d1870bb580344804617879a14949cf22285f1bae3f27"
                                 "6e2470b93aac583c9ef6eafca3f730ae")
    ok &= r["acts"][2].hex() == ("00b9e3a702e93e3a9948c2ed6e5fd7590a6e1c3a0344cfc9d5b57357049aa22355361a"
                                 "a02e55a8fc28fef5bd6d71ad0c38228dc68b1c466263b47fdf31e560e139ba")
    ok &= r["sk"].hex() == "969ab31b4d288cedf6218839b27a3e2140827047f2c0f01bf5c04435d43511a9"
    ok &= r["rk"].hex() == "bb9020b8965f4df047e07f955f3c4b88418984aadc5cdb35096b9ea8fa5c3442"
    ok &= frame(r["sk"], 0, b"hello").hex() == ("cf2b30ddf0cf3f80e7c35a6e6730b59fe802473180f396d88a8fb0db8cbcf25d"
                                                 "2f214cf9ea1d95")
    return bool(ok)
