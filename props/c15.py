"""C15 — a preimage is released only for a fully and correctly paid invoice."""
import hashlib

from lib.verif import *

THEOREMS = [
    "C15_settle_sound", "C15_monotone", "C15_amt_paid",
    "C15_replay_same_verdict", "C15_replay_same_verdict_amp", "C15_no_settle_and_cancel",
    "C15_replay_keysend_refuted", "C15_replay_amp_jit_refuted", "C15_amp_kv_reuse_refuted",
    # AMP (Invoice/AmpProps.v)
    "C15_amp_settle_only_complete", "C15_amp_fresh_settle_needs_complete", "C15_amp_atomic",
    "C15_amp_hash_checks_agree", "C15_amp_accounting", "C15_amp_sets_independent",
    "C15_amp_set_state_not_final_refuted", "C15_amp_paid_settled_only_refuted",
]
MODULE = "LV.Invoice.Props LV.Invoice.AmpProps"
TARGETS = ["theories/Invoice/Props.vo", "theories/Invoice/Exec.vo",
           "theories/Invoice/Examples.vo", "theories/Invoice/AmpProps.vo",
           "theories/Invoice/AmpExamples.vo"]
HARNESS = ["invoices/verif_registry_test.go", "invoices/verif_registry_kv_test.go"]
TAGS = "verif test_db_sqlite"
WARM = [{"pkg": "invoices", "files": HARNESS, "tags": TAGS}]
IMPORTS = ("From Coq Require Import List NArith ZArith.\nImport ListNotations.\n"
           "From LV Require Import Invoice.Model Invoice.Exec.\n")

FAIL = {"replay_canceled": 1, "already_canceled": 2, "already_settled": 3, "amount_too_low": 4,
        "expiry_too_soon": 5, "canceled": 6, "not_open": 7, "mpp_timeout": 8,
        "address_mismatch": 9, "set_total_mismatch": 10, "set_total_too_low": 11,
        "set_overpayment": 12, "not_found": 13, "keysend_error": 14, "mpp_in_progress": 15,
        "type_mismatch": 16, "amp_error": 17, "amp_reconstruction": 18, "unknown_fail": 99}
SETTLE = {"settled": 1, "replay_settled": 2, "duplicate_settled": 3, "unknown_settle": 99}
API = {"ok": "AOk", "dup": "ADup", "invalid": "AInvalid", "not_found": "ANotFound",
       "still_open": "AStillOpen", "already_canceled": "AAlreadyCanceled",
       "already_settled": "AAlreadySettled", "other": "AOther"}
CSTATE = {"open": "COpen", "settled": "CSettled", "canceled": "CCanceled", "accepted": "CAccepted"}
HSTATE = {"accepted": "HAccepted", "canceled": "HCanceled", "settled": "HSettled"}
W64 = 1 << 64
# outcomes produced by processKeySend / processAMP before the replay lookup
JIT = ("keysend_error", "amp_error")
# signatures of the registered findings (C15-F1, C15-F2); everything else is a violation
KNOWN_SIG = ("C15 replay:jit-precheck", "C15 amp:kv-settled-set-reuse-drops-records")


# ---------------------------------------------------------------- Coq terms

def t_resn(r):
    if r[0] == "settle":
        return "(NSettle %s %s %s %s)" % (cN(r[1]), cN(r[2]), cZ(r[3]), cN(SETTLE[r[4]]))
    if r[0] == "fail":
        return "(NFail %s %s %s)" % (cN(r[1]), cZ(r[2]), cN(FAIL[r[3]]))
    raise ValueError(r)


def t_reply(r):
    if r[0] == "nil":
        return "(RpDirect DNil)"
    if r[0] == "err":
        return "(RpDirect DErr)"
    if r[0] == "api":
        return "(RpApi %s)" % API[r[1]]
    return "(RpDirect (DRes %s))" % t_resn(r)


def t_event(e):
    k = e[0]
    if k == "add":
        v = e[1]
        return ("(EAdd (mkInv %s %s %s %s %s %s %s %s COpen [] 0%%N []))" % (
            cN(v["hash"]), cN(v["addr"]), cN(v["value"]), copt(v["pre"], cN), cZ(v["delta"]),
            cbool(v["hodl"]), cbool(v["amp"]), cbool(v["addr_req"])))
    if k == "notify":
        h = e[1]
        mpp = "None" if h["mpp"] is None else "(Some (%s, %s))" % (cN(h["mpp"][0]), cN(h["mpp"][1]))
        ks = h["ks"]
        kst = "KSNone" if ks is None else ("KSBad" if ks == "bad" else "(KSPre %s)" % cN(ks))
        return "(ENotify (mkCtx %s %s %s %s %s %s %s %s %s %s %s %s %s))" % (
            cN(h["hash"]), cN(h["key"]), cN(h["amt"]), cZ(h["expiry"]), cZ(h["height"]), mpp,
            cbool(h["amp"]), copt(h["path"], cN), cN(h["total"]), kst,
            cN(h.get("set_id", 0)), cN(h.get("share", 0)), cN(h.get("idx", 0)))
    if k == "settle":
        return "(ESettleHodl %s)" % cN(e[1])
    if k == "cancel":
        return "(ECancel %s %s)" % (cN(e[1]), cbool(e[2]))
    if k == "timeout":
        return "(ETimeout %s %s %s)" % (cN(e[1]), copt(e[2], cN), cN(e[3]))
    if k == "timeout_set":
        return "(ETimeoutSet %s %s)" % (cN(e[1]), cN(e[2]))
    raise ValueError(k)


HSTATE_N = {0: "HAccepted", 1: "HCanceled", 2: "HSettled"}


def t_hamp(h):
    if not h.get("amp"):
        return "None"
    pre = "None" if h["amp_pre"] < 0 else "(Some %s)" % cN(h["amp_pre"])
    return "(Some (%s, %s, %s))" % (cN(h["set_id"]), cN(h["amp_hash"]), pre)


def t_snap(s):
    hs = clist(["(mkHS %s %s %s %s %s %s %s)" % (cN(h["key"]), cN(h["amt"]), cN(h["total"]),
                                                cZ(h["expiry"]), cZ(h["height"]),
                                                HSTATE[h["state"]], t_hamp(h))
                for h in s["htlcs"]])
    sets = clist(["(%s, (%s, %s))" % (cN(a[0]), HSTATE_N.get(a[1], "HAccepted"), cN(a[2]))
                  for a in (s.get("amp_state") or [])])
    keys = clist(["(%s, %s)" % (cN(a[0]), clist([cN(k) for k in a[1:]]))
                  for a in (s.get("amp_keys") or [])])
    return "(mkIS %s %s %s %s %s %s %s)" % (cN(s["hash"]), CSTATE[s["state"]], cN(s["paid"]),
                                            copt(s["pre"], cN), hs, sets, keys)


def t_case(c):
    g = c["cfg"]
    ops = clist(["(mkObs %s %s %s %s)" % (t_event(o["ev"]), t_reply(o["reply"]),
                                         clist([t_resn(n) for n in o["ntf"]]),
                                         clist([t_snap(s) for s in o["snap"]]))
                 for o in c["ops"]])
    tbl = clist(["(%s, %s)" % (cN(a), cN(b)) for a, b in c["tbl"]])

    def pairs(l):
        return clist(["(%s, %s)" % (cN(a), cN(b)) for a, b in l])
    amp = clist(["(%s, %s)" % (pairs(e["descs"]), pairs(e["res"])) for e in (c.get("amp_tbl") or [])])
    return "(mkCase (mkCfg %s %s %s %s %s) %s %s %s)" % (
        cZ(g["rd"]), cbool(g["keysend"]), cbool(g["kshold"]), cbool(g["kv"]),
        cbool(g.get("amp", False)), tbl, amp, ops)


# ------------------------------------------------- predicate on the impl trace

ORDER_C = {("open", "open"), ("open", "accepted"), ("open", "settled"), ("open", "canceled"),
           ("accepted", "accepted"), ("accepted", "settled"), ("accepted", "canceled"),
           ("settled", "settled"), ("canceled", "canceled")}
ORDER_H = {("accepted", "accepted"), ("accepted", "settled"), ("accepted", "canceled"),
           ("settled", "settled"), ("canceled", "canceled")}


def sha(hexpre):
    return hashlib.sha256(bytes.fromhex(hexpre)).hexdigest()


def predicate(c):
    """The C15 statement evaluated on the implementation's own trace (inputs,
    resolutions, LookupInvoice after every event).  Independent of the Coq
    model.  Returns [(theorem, message)]."""
    fails = []
    rd = c["cfg"]["rd"]
    kv = c["backend"] == "kv"
    settled_at = {}    # key -> op index at which the record was first seen settled
    vanished = set()   # keys whose record was dropped by the KV set rewrite (finding C15-F2)
    F2 = "C15 amp:kv-settled-set-reuse-drops-records"
    invterms = {}      # hash id -> terms as added (first successful add)
    arrived = {}       # key -> notify input (first seen)
    settled_keys = {}  # key -> preimage hex seen in a settle resolution
    failed_after_settle = set()
    prev = {}          # hash id -> snapshot
    hstate_seen = {}   # key -> set of states ever observed
    for oi, o in enumerate(c["ops"]):
        ev = o["ev"]
        where = "op %d %s" % (oi, ev[0])
        if ev[0] == "add" and o["reply"] == ["api", "ok"]:
            invterms[ev[1]["hash"]] = ev[1]
        if ev[0] == "notify":
            arrived.setdefault(ev[1]["key"], ev[1])
        snaps = {s["hash"]: s for s in o["snap"]}
        # keysend / spontaneous AMP invoices appear without an add event
        for hid, s in snaps.items():
            if hid not in invterms and hid not in prev and ev[0] == "notify":
                h = ev[1]
                amp = bool(h.get("amp")) and bool(c["cfg"].get("amp")) and h["mpp"] is not None
                invterms[hid] = {"hash": hid, "addr": 0 if not amp else h["mpp"][0],
                                 "value": h["amt"] if not amp else h["mpp"][1], "delta": rd,
                                 "hodl": bool(c["cfg"].get("kshold")) and not amp, "amp": amp,
                                 "addr_req": False, "jit": True}
        for s in snaps.values():
            for h in s["htlcs"]:
                if h["state"] == "settled":
                    settled_at.setdefault(h["key"], oi)
        # -- resolutions of this event
        resolutions = ([o["reply"]] if o["reply"][0] in ("settle", "fail") else []) + o["ntf"]
        for r in resolutions:
            if r[0] == "settle":
                key, prehex = r[1], r[5]
                hin = arrived.get(key)
                if hin is None:
                    fails.append(("C15_settle_sound", "%s: settle for never-seen htlc %d" % (where, key)))
                    continue
                # (a) preimage hashes to the HTLC's payment hash
                if sha(prehex) != hin["hash_hex"]:
                    fails.append(("C15_settle_sound", "%s: preimage released for htlc %d does not "
                                  "hash to its payment hash" % (where, key)))
                if settled_keys.setdefault(key, prehex) != prehex:
                    fails.append(("C15_replay_same_verdict", "%s: htlc %d settled with two "
                                  "different preimages" % (where, key)))
                # (b) the htlc is recorded settled on its invoice and the set conditions hold
                inv = None
                for s in snaps.values():
                    for h in s["htlcs"]:
                        if h["key"] == key:
                            inv, hrec = s, h
                if inv is None:
                    fails.append(("C15_settle_sound", "%s: settled htlc %d not recorded on any "
                                  "invoice" % (where, key)))
                    continue
                if hrec["state"] != "settled":
                    fails.append(("C15_settle_sound", "%s: settle resolution for htlc %d recorded "
                                  "as %s" % (where, key, hrec["state"])))
                terms = invterms.get(inv["hash"])
                if terms is None:
                    fails.append(("C15_settle_sound", "%s: invoice %d unknown" % (where, inv["hash"])))
                    continue
                if terms.get("amp") and hrec.get("amp_pre_hex") != prehex:
                    fails.append(("C15_settle_sound", "%s: preimage released for AMP htlc %d is "
                                  "not the one recorded on it" % (where, key)))
                fails += [("C15_settle_sound", "%s: htlc %d: %s" % (where, key, m))
                          for m in set_conditions(c, terms, inv, hrec, arrived, settled_at)]
            elif r[0] == "fail":
                if r[1] in settled_keys and r[3] not in JIT:
                    # (the JIT pre-check answer is classified by the replay check below)
                    if kv and r[1] in vanished:
                        fails.append(("C15_replay_same_verdict", "%s (%s: htlc %d, whose settled "
                                      "record was dropped, failed on replay)" % (F2, where, r[1])))
                    else:
                        fails.append(("C15_no_settle_and_cancel", "%s: htlc %d failed after it "
                                      "was settled" % (where, r[1])))
        # -- a resolution handed to the link is durable: the invoice re-read from the
        #    store after the event (a fresh lookup, also after a registry restart) shows
        #    the htlc in the state the resolution implies; catches silent no-op writes
        stored = {}
        for s in snaps.values():
            for h in s["htlcs"]:
                stored.setdefault(h["key"], []).append(h)
                if h.get("resolved") is not None and h["resolved"] != (h["state"] != "accepted"):
                    fails.append(("C15_resolution_durable", "%s: stored htlc %d is %s with%s resolve time"
                                  % (where, h["key"], h["state"], "" if h["resolved"] else "out")))
                if "chan" in h and h["key"] == 999999:
                    fails.append(("C15_resolution_durable", "%s: stored circuit key (%d, %d) was never sent"
                                  % (where, h["chan"], h["htlc"])))
        for r in resolutions:
            if r[0] == "fail" and r[3] not in JIT and not (kv and r[1] in vanished):
                for h in stored.get(r[1], []):
                    if h["state"] != "canceled":
                        fails.append(("C15_resolution_durable", "%s: htlc %d failed towards the link (%s) "
                                      "but the stored record is %s" % (where, r[1], r[3], h["state"])))
        if ev[0] == "notify" and o["reply"][0] == "nil":
            recs = stored.get(ev[1]["key"], [])
            if len(recs) != 1 or recs[0]["state"] != "accepted":
                fails.append(("C15_resolution_durable", "%s: htlc %d is held but the stored record is %s"
                              % (where, ev[1]["key"], [h["state"] for h in recs] or "missing")))
        # -- replay verdicts: a recorded htlc that is notified again
        if ev[0] == "notify":
            key = ev[1]["key"]
            before = None
            for s in prev.values():
                for h in s["htlcs"]:
                    if h["key"] == key:
                        before = h
            if before is not None:
                want = {"accepted": "nil", "settled": "settle", "canceled": "fail"}[before["state"]]
                if o["reply"][0] == "fail" and want != "fail" and o["reply"][3] in JIT:
                    fails.append(("C15_replay_same_verdict", "C15 replay:jit-precheck-before-replay "
                                  "(%s: replay of %s htlc %d answered fail/%s)"
                                  % (where, before["state"], key, o["reply"][3])))
                elif o["reply"][0] != want:
                    fails.append(("C15_replay_same_verdict", "%s: replay of %s htlc %d answered %s"
                                  % (where, before["state"], key, o["reply"][0])))
                after = [h for s in snaps.values() for h in s["htlcs"] if h["key"] == key]
                if len(after) != 1 or after[0] != before:
                    fails.append(("C15_replay_same_verdict", "%s: replay changed the record of "
                                  "htlc %d" % (where, key)))
        # -- states only move forward; nothing disappears
        for hid, ps in prev.items():
            s = snaps.get(hid)
            if s is None:
                fails.append(("C15_monotone", "%s: invoice %d disappeared" % (where, hid)))
                continue
            if (ps["state"], s["state"]) not in ORDER_C:
                fails.append(("C15_monotone", "%s: invoice %d moved %s -> %s"
                              % (where, hid, ps["state"], s["state"])))
            if ps["pre"] is not None and s["pre_hex"] != ps["pre_hex"]:
                fails.append(("C15_monotone", "%s: invoice %d preimage changed" % (where, hid)))
            now = {h["key"]: h for h in s["htlcs"]}
            for ph in ps["htlcs"]:
                h = now.get(ph["key"])
                if h is None:
                    # finding C15-F2: KV store, this event settled a complete AMP payment
                    # into the already settled set id of the vanished record
                    pset = {a[0]: a[1] for a in (ps.get("amp_state") or [])}
                    if (kv and ph.get("amp") and ev[0] == "notify" and ev[1].get("amp")
                            and ev[1].get("set_id") == ph["set_id"] and pset.get(ph["set_id"]) == 2
                            and o["reply"][0] == "settle" and o["reply"][4] == "settled"
                            and ph["state"] != "accepted"):
                        vanished.add(ph["key"])
                        fails.append(("C15_monotone", "%s (%s: record of %s htlc %d dropped)"
                                      % (F2, where, ph["state"], ph["key"])))
                    else:
                        fails.append(("C15_monotone", "%s: htlc %d vanished" % (where, ph["key"])))
                elif (ph["state"], h["state"]) not in ORDER_H:
                    fails.append(("C15_monotone", "%s: htlc %d moved %s -> %s"
                                  % (where, ph["key"], ph["state"], h["state"])))
                elif any(ph[f] != h[f] for f in ("amt", "total", "expiry", "height")):
                    fails.append(("C15_monotone", "%s: htlc %d record rewritten" % (where, ph["key"])))
        # -- per-invoice state facts
        seen_keys = {}
        for hid, s in snaps.items():
            terms = invterms.get(hid, {})
            for h in s["htlcs"]:
                hstate_seen.setdefault(h["key"], set()).add(h["state"])
                if h["key"] in seen_keys:
                    fails.append(("C15_no_settle_and_cancel", "%s: htlc %d recorded on two invoices"
                                  % (where, h["key"])))
                seen_keys[h["key"]] = hid
            # every RECORDED htlc passed the acceptance checks (address, margins, amount floor)
            if terms and not terms.get("amp"):
                for h in s["htlcs"]:
                    hin = arrived.get(h["key"])
                    if hin is None:
                        continue
                    carried = hin["mpp"][0] if hin["mpp"] is not None else hin["path"]
                    if carried is not None and carried != terms["addr"]:
                        fails.append(("C15_settle_sound", "%s: htlc %d recorded although it carried "
                                      "payment address %s, invoice has %s"
                                      % (where, h["key"], carried, terms["addr"])))
                    if carried is None and terms.get("addr_req") and not (
                            isinstance(hin["ks"], int) and hin["ks"] == hin["hash"]):
                        fails.append(("C15_settle_sound", "%s: htlc %d recorded without payment "
                                      "address on an invoice that requires one" % (where, h["key"])))
                    if h["expiry"] < h["height"] + max(rd, terms["delta"]):
                        fails.append(("C15_settle_sound", "%s: htlc %d recorded with expiry %d < "
                                      "height %d + %d" % (where, h["key"], h["expiry"], h["height"],
                                                          max(rd, terms["delta"]))))
                    if h["total"] == 0 and h["amt"] < terms["value"]:
                        fails.append(("C15_settle_sound", "%s: legacy htlc %d recorded with %d < "
                                      "invoice value %d" % (where, h["key"], h["amt"], terms["value"])))
                    if h["total"] != 0 and h["total"] < terms["value"]:
                        fails.append(("C15_settle_sound", "%s: htlc %d recorded with set total %d < "
                                      "invoice value %d" % (where, h["key"], h["total"], terms["value"])))
            if terms.get("amp") and not vanished:
                live = sum(h["amt"] for h in s["htlcs"] if h["state"] != "canceled") % W64
                if s["paid"] != live:
                    fails.append(("C15_amt_paid", "%s: AMP invoice %d amt_paid %d, accepted+settled "
                                  "htlcs sum to %d" % (where, hid, s["paid"], live)))
                for sid, sst, samt in (s.get("amp_state") or []):
                    mem = [h for h in s["htlcs"] if h.get("set_id") == sid]
                    want = sum(h["amt"] for h in mem if h["state"] != "canceled") % W64
                    if samt != want:
                        fails.append(("C15_amt_paid", "%s: AMP invoice %d set %d amt_paid %d, its "
                                      "accepted+settled htlcs sum to %d" % (where, hid, sid, samt, want)))
                    if sst == 2 and any(h["state"] == "accepted" for h in mem):
                        fails.append(("C15_monotone", "%s: settled AMP set %d holds an accepted htlc"
                                      % (where, sid)))
                if s["state"] not in ("open", "canceled"):
                    fails.append(("C15_monotone", "%s: AMP invoice %d in state %s"
                                  % (where, hid, s["state"])))
            if not terms.get("amp"):
                ssum = sum(h["amt"] for h in s["htlcs"] if h["state"] == "settled") % W64
                if s["state"] == "settled":
                    if s["paid"] != ssum:
                        fails.append(("C15_amt_paid", "%s: invoice %d settled with amt_paid %d, "
                                      "settled htlcs sum to %d" % (where, hid, s["paid"], ssum)))
                    if s["pre"] is None or (0 < hid <= len(c["hash_hex"]) and
                                            sha(s["pre_hex"]) != c["hash_hex"][hid - 1]):
                        fails.append(("C15_settle_sound", "%s: invoice %d settled without a "
                                      "matching preimage" % (where, hid)))
                    if any(h["state"] == "accepted" for h in s["htlcs"]):
                        fails.append(("C15_monotone", "%s: settled invoice %d holds an accepted "
                                      "htlc" % (where, hid)))
                elif any(h["state"] == "settled" for h in s["htlcs"]):
                    fails.append(("C15_settle_sound", "%s: %s invoice %d has a settled htlc"
                                  % (where, s["state"], hid)))
                if s["state"] == "canceled" and any(h["state"] != "canceled" for h in s["htlcs"]):
                    fails.append(("C15_monotone", "%s: canceled invoice %d holds a live htlc"
                                  % (where, hid)))
        for key, sts in hstate_seen.items():
            if "settled" in sts and "canceled" in sts:
                fails.append(("C15_no_settle_and_cancel", "%s: htlc %d both settled and canceled"
                              % (where, key)))
        prev = snaps
        if len(fails) > 8:
            break
    return fails


def set_conditions(c, terms, inv, hrec, arrived, settled_at):
    """Conditions under which htlc `hrec` of invoice snapshot `inv` may be
    settled (evaluated from the inputs the HTLCs arrived with)."""
    out = []
    rd = c["cfg"]["rd"]
    hin = arrived[hrec["key"]]

    def margin(h, a):
        need = max(rd, terms["delta"])
        if h["expiry"] < h["height"] + need:
            out.append("htlc %d accepted with expiry %d < height %d + %d"
                       % (h["key"], h["expiry"], h["height"], need))

    if terms.get("amp"):
        # the htlcs of the set id that were settled by the same step (one set id
        # may be paid again later by a self-contained payment)
        members = [h for h in inv["htlcs"] if h["state"] == "settled"
                   and h.get("set_id") == hrec.get("set_id")
                   and settled_at.get(h["key"]) == settled_at.get(hrec["key"])]
        if not hrec.get("amp") or hrec.get("set_id") == 0:
            out.append("settled htlc on an AMP invoice without a (non-blank) set id")
        if hrec.get("amp_pre_hex") is None or sha(hrec["amp_pre_hex"]) != hrec.get("amp_hash_hex") \
                or hrec.get("amp_hash_hex") != hin["hash_hex"]:
            out.append("recorded AMP preimage does not hash to the htlc's payment hash")
    else:
        members = [h for h in inv["htlcs"] if h["state"] == "settled"]
    for h in members:
        margin(h, arrived.get(h["key"]))
    carried = None
    if hin["mpp"] is not None:
        carried = hin["mpp"][0]
    elif hin["path"] is not None:
        carried = hin["path"]
    if carried is not None:
        if carried != terms["addr"]:
            out.append("carried payment address %s, invoice has %s" % (carried, terms["addr"]))
    else:
        ksok = isinstance(hin["ks"], int) and c["tbl"] and hin["ks"] == hin["hash"]
        if terms.get("addr_req") and not ksok:
            out.append("no payment address although the invoice requires one")
    if hrec["total"] == 0:
        if hrec["amt"] < terms["value"]:
            out.append("legacy htlc pays %d < invoice value %d" % (hrec["amt"], terms["value"]))
    else:
        mpp = [h for h in members if h["total"] != 0]
        if any(h["total"] != hrec["total"] for h in mpp):
            out.append("settled set declares different totals %s" % sorted({h["total"] for h in mpp}))
        if hrec["total"] < terms["value"]:
            out.append("set total %d < invoice value %d" % (hrec["total"], terms["value"]))
        ssum = sum(h["amt"] for h in mpp)
        if ssum < hrec["total"]:
            out.append("set pays %d < declared total %d" % (ssum, hrec["total"]))
    return out


# ------------------------------------------- AMP clauses (a)-(e) on the impl trace

def _xor(a, b):
    return bytes(x ^ y for x, y in zip(a, b))


def _amp_child_pre(root, share, idx):
    """amp.DeriveChild: child_preimage = SHA256(root || share || be32(index))."""
    return hashlib.sha256(root + share + int(idx).to_bytes(4, "big")).hexdigest()


def _proj_state(mem):
    """AMPState[set].State as a function of the set's htlc records."""
    if any(h["state"] == "settled" for h in mem):
        return 2
    if any(h["state"] == "canceled" for h in mem):
        return 1
    return 0


def _is_amp_snap(s):
    return bool(s.get("amp_state")) or any(h.get("amp") for h in s["htlcs"])


def amp_predicate(c):
    """Clauses (a)-(e) of the AMP part of C15, evaluated on the implementation's
    own trace (independent of the Coq model; SHA-256 and the AMP child
    derivation are recomputed here).  Returns [(theorem, message)]."""
    fails = []
    rd = c["cfg"]["rd"]
    kv = c["backend"] == "kv"
    terms = {}       # invoice hash id -> terms
    arrived = {}     # key -> first notify input
    prev = {}
    vanished = set()     # KV: keys whose record disappeared (finding C15-F2, reported by predicate())
    fresh_settled = {}   # key -> op index of its accepted/new -> settled transition
    for oi, o in enumerate(c["ops"]):
        ev = o["ev"]
        where = "op %d %s" % (oi, ev[0])
        if ev[0] == "add" and o["reply"] == ["api", "ok"]:
            terms[ev[1]["hash"]] = ev[1]
        if ev[0] == "notify":
            arrived.setdefault(ev[1]["key"], ev[1])
        snaps = {s["hash"]: s for s in o["snap"]}
        for hid, s in snaps.items():
            if hid not in terms and hid not in prev and ev[0] == "notify" and ev[1].get("amp") \
                    and c["cfg"].get("amp") and ev[1]["mpp"] is not None:
                terms[hid] = {"hash": hid, "addr": ev[1]["mpp"][0], "value": ev[1]["mpp"][1],
                              "delta": rd, "amp": True, "jit": True}
        for hid, ps in prev.items():
            s = snaps.get(hid)
            if s is None:
                continue
            now = {h["key"] for h in s["htlcs"]}
            for ph in ps["htlcs"]:
                if ph["key"] not in now:
                    vanished.add(ph["key"])
        replayed = None
        if ev[0] == "notify":
            for ps in prev.values():
                for h in ps["htlcs"]:
                    if h["key"] == ev[1]["key"]:
                        replayed = h
        # (e) a replay of a recorded htlc changes nothing at all
        if replayed is not None and [snaps.get(h) for h in sorted(prev)] != [prev[h] for h in sorted(prev)]:
            fails.append(("C15_replay_same_verdict_amp", "%s: replay of recorded htlc %d changed the "
                          "invoice database" % (where, ev[1]["key"])))
        settles = [r for r in ([o["reply"]] + o["ntf"]) if r and r[0] == "settle"]
        for hid, s in snaps.items():
            t = terms.get(hid)
            if not (t and t.get("amp")) and not _is_amp_snap(s):
                continue
            ps = prev.get(hid)
            pmap = {h["key"]: h for h in (ps["htlcs"] if ps else [])}
            pstate = {a[0]: a for a in ((ps.get("amp_state") or []) if ps else [])}
            clean = not (kv and any(h["key"] in vanished for h in pmap.values()))
            # ---- which set does this op touch on this invoice
            touched = None       # None = any set may change (CancelInvoice)
            if ev[0] == "notify":
                touched = {ev[1].get("set_id")} if ev[1].get("amp") else set()
            elif ev[0] == "timeout_set":
                touched = {ev[1]}
            elif ev[0] == "timeout":
                touched = {h.get("set_id") for h in s["htlcs"] if h["key"] == ev[3]}
            elif ev[0] in ("add", "settle"):
                touched = set()
            # ---- (d) sets do not interfere: records / AMPState of untouched sets are unchanged
            if ps is not None and touched is not None:
                for h in s["htlcs"]:
                    if h.get("set_id") not in touched and h["key"] in pmap and pmap[h["key"]] != h:
                        fails.append(("C15_amp_sets_independent", "%s: htlc %d of set %s changed by an "
                                      "event on set(s) %s" % (where, h["key"], h.get("set_id"),
                                                              sorted(touched))))
                for a in (s.get("amp_state") or []):
                    if a[0] not in touched and pstate.get(a[0]) not in (None, a):
                        fails.append(("C15_amp_sets_independent", "%s: AMPState[%d] changed by an "
                                      "event on set(s) %s" % (where, a[0], sorted(touched))))
                if ev[0] == "timeout_set":
                    for h in s["htlcs"]:
                        if h["key"] != ev[2] and h["key"] in pmap and pmap[h["key"]] != h:
                            fails.append(("C15_amp_sets_independent", "%s: set timer of htlc %d changed "
                                          "htlc %d" % (where, ev[2], h["key"])))
            # ---- (a) the batch settled by this op
            batch = [h for h in s["htlcs"] if h["state"] == "settled" and h.get("amp")
                     and (pmap.get(h["key"]) is None or pmap[h["key"]]["state"] == "accepted")
                     and h["key"] not in vanished]
            for h in batch:
                if h["key"] in fresh_settled:
                    fails.append(("C15_amp_set_resolved_once", "%s: htlc %d settled a second time (first "
                                  "at op %d)" % (where, h["key"], fresh_settled[h["key"]])))
                fresh_settled.setdefault(h["key"], oi)
            if batch:
                tt = "C15_amp_settle_only_complete"
                if not (ev[0] == "notify" and ev[1].get("amp") and o["reply"][0] == "settle"
                        and o["reply"][4] == "settled" and o["reply"][1] == ev[1]["key"]):
                    fails.append((tt, "%s: AMP htlcs %s became settled without a settling arrival"
                                  % (where, [h["key"] for h in batch])))
                else:
                    hin = ev[1]
                    sid, total = hin["set_id"], (hin["mpp"][1] if hin["mpp"] else 0)
                    if sid == 0:
                        fails.append((tt, "%s: set with the blank set id settled" % where))
                    if hin["key"] not in [h["key"] for h in batch]:
                        fails.append((tt, "%s: arriving htlc %d not in the settled batch" % (where, hin["key"])))
                    if any(h["set_id"] != sid for h in batch):
                        fails.append((tt, "%s: batch spans set ids %s" % (where, sorted({h["set_id"] for h in batch}))))
                    if ps is not None and ps["state"] != "open":
                        fails.append((tt, "%s: set settled on a %s invoice" % (where, ps["state"])))
                    if any(h["total"] != total for h in batch):
                        fails.append((tt, "%s: batch declares totals %s, arrival %d"
                                      % (where, sorted({h["total"] for h in batch}), total)))
                    if t is not None and (total == 0 or total < t["value"]):
                        fails.append((tt, "%s: set total %d below the invoice value %d" % (where, total, t["value"])))
                    ssum = sum(h["amt"] for h in batch)
                    if ssum < total:
                        fails.append((tt, "%s: set %d settled with %d < declared total %d (other sets "
                                      "must not be borrowed from)" % (where, sid, ssum, total)))
                    # every accepted htlc of the set is in the batch (the whole set settles)
                    if any(h["state"] == "accepted" and h.get("set_id") == sid for h in s["htlcs"]):
                        fails.append((tt, "%s: set %d settled but holds an accepted htlc" % (where, sid)))
                    root, ok_shares = bytes(32), True
                    for h in batch:
                        a = arrived.get(h["key"])
                        if a is None:
                            fails.append((tt, "%s: settled htlc %d never arrived" % (where, h["key"])))
                            ok_shares = False
                            continue
                        if t is not None:
                            if a["mpp"] is None or a["mpp"][0] != t["addr"]:
                                fails.append((tt, "%s: htlc %d carried address %s, invoice has %s"
                                              % (where, h["key"], a["mpp"] and a["mpp"][0], t["addr"])))
                            need = max(rd, t["delta"])
                            if h["expiry"] < h["height"] + need:
                                fails.append((tt, "%s: htlc %d settled with expiry %d < %d + %d"
                                              % (where, h["key"], h["expiry"], h["height"], need)))
                        if a.get("set_id") != h["set_id"] or a["amt"] != h["amt"] or \
                                (a["mpp"] and a["mpp"][1] != h["total"]):
                            fails.append((tt, "%s: record of htlc %d differs from what it arrived with"
                                          % (where, h["key"])))
                        if h.get("amp_pre_hex") is None or sha(h["amp_pre_hex"]) != a["hash_hex"]:
                            fails.append((tt, "%s: htlc %d settled without a preimage of its payment hash"
                                          % (where, h["key"])))
                        if a.get("share_hex"):
                            root = _xor(root, bytes.fromhex(a["share_hex"]))
                        else:
                            ok_shares = False
                    if ok_shares:
                        # the real derivation, redone here: the batch is a COMPLETE sharing
                        for h in batch:
                            a = arrived[h["key"]]
                            want = _amp_child_pre(root, bytes.fromhex(a["share_hex"]), a["idx"])
                            if h.get("amp_pre_hex") != want:
                                fails.append((tt, "%s: preimage of htlc %d is not the child derived from "
                                              "the XOR of the batch's shares" % (where, h["key"])))
                    bk = {h["key"]: h for h in batch}
                    for r in settles:
                        if r[1] not in bk:
                            fails.append((tt, "%s: settle resolution for htlc %d outside the settled "
                                          "batch" % (where, r[1])))
                        elif r[5] != bk[r[1]].get("amp_pre_hex"):
                            fails.append((tt, "%s: htlc %d resolved with a preimage other than its own"
                                          % (where, r[1])))
            # ---- (b) set / htlc resolutions are final
            if ps is not None and clean:
                for sid, a in pstate.items():
                    now = {x[0]: x for x in (s.get("amp_state") or [])}.get(sid)
                    if now is None:
                        fails.append(("C15_amp_set_resolved_once", "%s: AMPState[%d] disappeared" % (where, sid)))
                    elif a[1] == 2 and now[1] != 2:
                        fails.append(("C15_amp_set_resolved_once", "%s: settled set %d moved to state %d"
                                      % (where, sid, now[1])))
                    elif a[1] != 0 and now[1] == 0:
                        fails.append(("C15_amp_set_resolved_once", "%s: set %d re-opened (state %d -> accepted)"
                                      % (where, sid, a[1])))
                for h in s["htlcs"]:
                    ph = pmap.get(h["key"])
                    if ph is not None and ph["state"] != "accepted" and ph != h:
                        fails.append(("C15_amp_set_resolved_once", "%s: resolved htlc %d changed"
                                      % (where, h["key"])))
            # ---- (c) AmtPaid / AMPState are the projection of the htlc map
            if clean and not (kv and any(h["key"] in vanished for h in s["htlcs"])) and \
                    not (kv and vanished):
                bysid = {}
                for h in s["htlcs"]:
                    if h.get("amp"):
                        bysid.setdefault(h["set_id"], []).append(h)
                ent = {a[0]: a for a in (s.get("amp_state") or [])}
                keys = {a[0]: a[1:] for a in (s.get("amp_keys") or [])}
                tc = "C15_amp_accounting"
                if set(ent) != set(bysid):
                    fails.append((tc, "%s: AMPState has sets %s, the htlc map %s"
                                  % (where, sorted(ent), sorted(bysid))))
                for sid, mem in bysid.items():
                    a = ent.get(sid)
                    if a is None:
                        continue
                    if a[1] != _proj_state(mem):
                        fails.append((tc, "%s: AMPState[%d].State = %d, htlc states %s"
                                      % (where, sid, a[1], sorted(h["state"] for h in mem))))
                    want = sum(h["amt"] for h in mem if h["state"] != "canceled") % W64
                    if a[2] != want:
                        fails.append((tc, "%s: AMPState[%d].AmtPaid = %d, accepted+settled sum %d"
                                      % (where, sid, a[2], want)))
                    if "amp_keys" in s and keys.get(sid) != sorted(h["key"] for h in mem):
                        fails.append((tc, "%s: AMPState[%d].InvoiceKeys = %s, htlc map has %s"
                                      % (where, sid, keys.get(sid), sorted(h["key"] for h in mem))))
                    if any(h["state"] == "settled" for h in mem) and any(h["state"] == "accepted" for h in mem):
                        fails.append((tc, "%s: set %d holds settled and accepted htlcs" % (where, sid)))
                live = sum(h["amt"] for h in s["htlcs"] if h["state"] != "canceled") % W64
                if s["paid"] != live or s["paid"] != sum(a[2] for a in ent.values()) % W64:
                    fails.append((tc, "%s: AmtPaid %d, htlc map %d, AMPState sum %d"
                                  % (where, s["paid"], live, sum(a[2] for a in ent.values()))))
                if not any(h["state"] == "accepted" for h in s["htlcs"]):
                    st_sets = sum(h["amt"] for h in s["htlcs"] if h["state"] == "settled") % W64
                    if s["paid"] != st_sets:
                        fails.append((tc, "%s: no set in flight but AmtPaid %d != settled sets %d"
                                      % (where, s["paid"], st_sets)))
        prev = snaps
        if len(fails) > 8:
            break
    return fails


def amp_kinds(c):
    """Which AMP situations a case exercised (for the evidence histogram)."""
    kinds = set()
    if c["kind"] == "model":
        return kinds
    if c.get("scenario"):
        kinds.add("scenario:" + c["scenario"])
    prev = {}
    value = {}
    for o in c["ops"]:
        ev, r = o["ev"], o["reply"]
        if ev[0] == "add" and r == ["api", "ok"]:
            value[ev[1]["hash"]] = ev[1]["value"]
        snaps = {s["hash"]: s for s in o["snap"]}
        for hid, s in snaps.items():
            ps = prev.get(hid)
            if not _is_amp_snap(s):
                continue
            held = {}
            for h in s["htlcs"]:
                if h["state"] == "accepted":
                    held[h.get("set_id")] = held.get(h.get("set_id"), 0) + h["amt"]
            if len(held) >= 2:
                kinds.add("two_sets_in_flight")
                if value.get(hid) and sum(held.values()) >= value[hid]:
                    kinds.add("held_sets_together_reach_value_none_complete")
            pst = {a[0]: a[1] for a in ((ps or {}).get("amp_state") or [])}
            for a in (s.get("amp_state") or []):
                if pst.get(a[0]) == 1 and a[1] == 2:
                    kinds.add("set_canceled_then_settled")
                if pst.get(a[0]) == 2 and a[1] == 2 and r[0] == "settle" and r[4] == "settled" \
                        and ev[0] == "notify" and ev[1].get("set_id") == a[0]:
                    kinds.add("settled_set_id_paid_again")
            if r[0] == "settle" and r[4] == "settled" and ev[0] == "notify" and ev[1].get("amp"):
                kinds.add("set_settled")
                n = len([1 for h in s["htlcs"] if h.get("set_id") == ev[1]["set_id"] and h["state"] == "settled"])
                kinds.add("set_settled_%s_shards" % ("1" if n == 1 else "2+"))
                if held:
                    kinds.add("set_settled_while_other_set_held")
                if sum(h["amt"] for h in s["htlcs"] if h.get("set_id") == ev[1]["set_id"]
                       and h["state"] == "settled") > (ev[1]["mpp"] or [0, 0])[1]:
                    kinds.add("set_overpaid")
            if ev[0] == "cancel" and ps is not None and ev[1] == hid:
                if any(h["state"] == "accepted" for h in ps["htlcs"]):
                    kinds.add("cancel_invoice_with_held_sets:" + r[1])
        if ev[0] == "timeout_set" and o["ntf"]:
            kinds.add("set_timer_release")
        if ev[0] == "notify" and ev[1].get("amp"):
            if ev[1].get("after_restart"):
                kinds.add("replay_after_restart")
            if r[0] == "settle" and r[4] == "replay_settled":
                kinds.add("replay_of_settled")
            if r[0] == "fail":
                kinds.add("fail:" + r[3])
            if r[0] == "err":
                kinds.add("update_error")
        prev = snaps
    if c.get("restarts"):
        kinds.add("registry_restarted")
    return kinds


# --------------------------------------------------------------------- run

def run(ctx):
    pr = ctx.proof_stage(MODULE, THEOREMS, TARGETS, extra_trusted=[
        "hash function H is a Section variable (theorems hold for any H); execution uses a "
        "per-case table computed by the harness with crypto/sha256, the python predicate "
        "recomputes SHA-256 itself",
        "AMP reconstruction (amp.ReconstructChildren) is a Section variable R; the soundness theorems need NO "
        "hypothesis on it (they rest on the code's own checks: child hash = htlc hash, H(preimage) = htlc "
        "hash, which the model mirrors); C15_amp_atomic carries the stated secrecy hypothesis R_atomic (a "
        "reconstruction reproducing one child hash of a sharing D was made from all descriptors of D -- XOR "
        "n-of-n sharing + SHA-256, a cryptographic assumption, satisfiable: AmpExamples.xR2_atomic) and "
        "C15_amp_hash_checks_agree the hypothesis child.Hash = H(child.Preimage) (amp.DeriveChild; checked on "
        "every oracle point of the run); execution uses a per-case table computed by the harness with the real "
        "amp package for every subset of the AMP records of one set id, and the python predicate redoes the "
        "derivation itself (root = XOR of the batch's shares, preimage = SHA256(root||share||be32(index)))",
        "C15_amp_accounting: SQL store (g_kv = false) and total htlc volume of the invoice < 2^64; restarts of "
        "the registry are not model events (hodl subscriptions are the only volatile state; the harness replays "
        "every held htlc after a restart, as the links do)",
        "event-sequence hypothesis of C15_no_settle_and_cancel / C15_replay_same_verdict: a circuit "
        "key always arrives with the same payment hash and onion payload (link invariant); the model "
        "answers DUnmodelled when a key recorded on an AMP invoice arrives with another set id / no AMP record",
        "one model step = one registry API call (registry mutex + one DB transaction)"])
    env = {}
    rc, trace, out = run_harness(ctx.uid(), "invoices", HARNESS, "^TestVerifRegistry$",
                                 env=env, tags=TAGS, timeout=3000)
    rows = read_jsonl(trace)
    if rc != 0 or not rows:
        ctx.violation("harness_failed", "TestVerifRegistry", {"log": out[-4000:]},
                      signature="harness", failing_input=False)
        return
    # implementation-side predicate
    nfail = 0
    nknown = {}
    pred_bad = set()
    for ci, c in enumerate(rows):
        f = predicate(c) + amp_predicate(c)
        if f:
            pred_bad.add(ci)
            other = [x for x in f if not x[1].startswith(KNOWN_SIG)]
            for pref in KNOWN_SIG:
                known = [x for x in f if x[1].startswith(pref)]
                if known:
                    nknown[pref] = nknown.get(pref, 0) + 1
                    if nknown[pref] <= 1:
                        ctx.violation("impl_violates_predicate", known[0][0],
                                      {"case": c, "fails": [m for _, m in known]},
                                      signature=known[0][1])
            if other:
                nfail += 1
                if nfail <= 3:
                    ctx.violation("impl_violates_predicate", other[0][0],
                                  {"case": c, "fails": [m for _, m in other]},
                                  signature="invoice %s/%s %s" % (c["kind"], c["backend"],
                                                                  other[0][1]))
    # correspondence (model-tied cases)
    idx = list(range(len(rows)))
    terms = [t_case(rows[i]) for i in idx]
    ok, bad, logs = coq_mismatches(ctx.uid(), IMPORTS, terms,
                                   shard=max(4, len(terms) // NCPU + 1))
    if not ok:
        ctx.violation("correspondence_mismatch", "Invoice.Exec (model evaluation failed)",
                      {"logs": logs}, signature="model-eval", failing_input=False)
    for ti, opsidx in bad[:3]:
        c = rows[idx[ti]]
        ctx.violation("correspondence_mismatch", "Invoice.Exec.check_case",
                      {"case_index": c["case"], "backend": c["backend"], "cfg": c["cfg"],
                       "first_disagreeing_ops": [{"index": i, "ev": c["ops"][i]["ev"],
                                                  "impl_reply": c["ops"][i]["reply"],
                                                  "impl_ntf": c["ops"][i]["ntf"],
                                                  "impl_snap": c["ops"][i]["snap"]}
                                                 for i in opsidx[:2]],
                       "events": [o["ev"] for o in c["ops"][:(opsidx[0] + 1)]]},
                      signature="invoice mismatch", failing_input=idx[ti] in pred_bad)
    if not pr["ok"] and not ctx.violations:
        ctx.violation("proof_broken", ", ".join(pr["broken"]) or "Invoice build",
                      {"log": pr["log"][-4000:]}, signature="proof", failing_input=False)
    if ctx.thorough and pr["ok"]:
        ctx.coqchk(["LV.Invoice.Props"])
    # coverage
    hist = {"event": {}, "reply": {}, "ntf": {}, "invoice_kind": {}, "backend": {}, "kind": {},
            "amp_case_kinds": {}, "stored_chan_id_class": {}, "stored_htlc_id_class": {},
            "entry_point_on_state_mix": {}}

    def bump(h, k):
        hist[h][k] = hist[h].get(k, 0) + 1
    nops = 0
    for c in rows:
        bump("backend", c["backend"])
        bump("kind", c["kind"])
        for o in c["ops"]:
            nops += 1
            bump("event", o["ev"][0])
            r = o["reply"]
            bump("reply", r[0] + ":" + (r[4] if r[0] == "settle" else r[3] if r[0] == "fail"
                                        else r[1] if r[0] == "api" else ""))
            for n in o["ntf"]:
                bump("ntf", n[0] + ":" + (n[4] if n[0] == "settle" else n[3]))
            if o["ev"][0] == "add":
                bump("invoice_kind", o["ev"][1]["kind"])
    # circuit-key domain actually stored (per backend): magnitude class of ChanID / HtlcID
    hist["stored_chan_id_class"], hist["stored_htlc_id_class"] = {}, {}

    def mag(v):
        return ("<2^31" if v < 1 << 31 else "<2^32" if v < 1 << 32 else "<2^62" if v < 1 << 62
                else "<2^63" if v < 1 << 63 else "alias-range" if 16000000 << 40 <= v < 16250000 << 40
                else ">=2^63")
    for c in rows:
        seen = {}
        for o in c["ops"]:
            for sn in o["snap"]:
                for h in sn["htlcs"]:
                    if "chan" in h:
                        seen[h["key"]] = (h["chan"], h["htlc"])
        for ch, hi in seen.values():
            bump("stored_chan_id_class", c["backend"] + ":" + mag(ch))
            bump("stored_htlc_id_class", c["backend"] + ":" + mag(hi))
    # which mixtures of htlc states the map of some invoice held when an entry point
    # actually changed / answered from it: "<event>:<reply class>@<states present before>"
    hist["entry_point_on_state_mix"] = {}
    for c in rows:
        prevs = {}
        for o in c["ops"]:
            ev, r = o["ev"], o["reply"]
            cls = r[0] if r[0] in ("nil", "err") else (r[4] if r[0] == "settle" else r[3] if r[0] == "fail" else r[1])
            for hid, sn in prevs.items():
                now = next((x for x in o["snap"] if x["hash"] == hid), None)
                touched = now is not None and now != sn
                if ev[0] == "notify":
                    touched = touched or any(h["key"] == ev[1]["key"] for h in sn["htlcs"])
                if touched and sn["htlcs"]:
                    mix = "".join(sorted({h["state"][0] for h in sn["htlcs"]}))
                    bump("entry_point_on_state_mix", "%s:%s@%s" % (ev[0], cls, mix))
            prevs = {x["hash"]: x for x in o["snap"]}
    hist["amp_case_kinds"] = {}
    for c in rows:
        for k in amp_kinds(c):
            bump("amp_case_kinds", k)
    nontriv = [c for c in rows if any(o["reply"][0] == "settle" or o["ntf"] for o in c["ops"])]
    ctx.cov.update({
        "evaluations": len(rows),
        "distinct_nontrivial": distinct_count(nontriv, lambda c: [o["ev"] for o in c["ops"]]),
        "rule": "seeded event sequences (AddInvoice, NotifyExitHopHtlc incl. replays, "
                "SettleHodlInvoice, cancelInvoiceImpl, cancelSingleHtlc by ref and by AMP set id) over "
                "2-3 invoices and their HTLC sets (model stream) and over 1-2 AMP invoices with 2-4 "
                "set ids of real amp.SeedSharer shards (AMP stream), every case on the KV and on the "
                "SQL store; non-trivial = at least one settle resolution or hodl notification; "
                "distinct by event list",
        "traces_validated_against_impl": len(idx),
        "amp_cases_validated_against_impl": sum(1 for c in rows if c["kind"] == "amp"),
        "amp_oracle_points": sum(len(c.get("amp_tbl") or []) for c in rows),
        "ops_total": nops, "histograms": hist,
        "samples": [[o["ev"] for o in rows[0]["ops"][:4]]],
        "correspondence_mismatches": len(bad),
        "predicate_failures": nfail,
        "cases_hitting_known_findings": nknown,
    })
    # hypotheses on R used by theorems, checked on every oracle point of the run
    bad_oracle = 0
    for c in rows:
        tb = dict((a, b) for a, b in c["tbl"])
        for e in (c.get("amp_tbl") or []):
            if len(e["res"]) != len(e["descs"]) or any(tb.get(p) != hh for hh, p in e["res"]):
                bad_oracle += 1
    if bad_oracle:
        ctx.violation("impl_violates_predicate", "C15_amp_hash_checks_agree",
                      {"oracle_points_violating_R_wellformed": bad_oracle},
                      signature="amp oracle: child hash != sha256(child preimage)", failing_input=False)
    ctx.cov["amp_oracle_points_R_wellformed"] = bad_oracle == 0
    ctx.assumptions += [
        "AMP: AmtPaid / AMPState (State, AmtPaid, InvoiceKeys) = projection of the htlc map: theorem "
        "C15_amp_accounting (SQL store, no uint64 overflow; InvoiceKeys by definition of the projection, compared "
        "with the implementation on the SQL store) + trace predicate + differential run; settle index / dates "
        "are not compared; at the level of a set id 'settled once / never after canceled' is refuted by design "
        "(C15_amp_set_state_not_final_refuted), the per-htlc form is C15_no_settle_and_cancel",
        "KV store, AMP: htlc records may vanish (known finding C15-F2) -- C15_monotone / "
        "C15_no_settle_and_cancel claim nothing about AMP htlc records when g_kv = true",
        "HTLC interceptor absent (MockHtlcModifier without expectations)",
        "bbolt / sqlite transactions are atomic (one model step per registry call)",
        "goroutine interleavings of concurrent NotifyExitHopHtlc calls are serialised by the "
        "registry mutex (not exercised concurrently)"]
