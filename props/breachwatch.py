"""C04 stage "breachwatch": the CHAIN WATCHER (contractcourt/chain_watcher.go), which owns its own
OpenChannel instance loaded from the database at an early point, must recognise every revoked
commitment handed to it as a spend of the funding outpoint as a BREACH, with a BreachRetribution
matching the transaction; the current / pending remote commitment as a remote unilateral close
with the right commit set.

Harness: harness/contractcourt/verif_breachwatch_test.go (TestVerifBreachWatch).
`run_stage(ctx)` reports violations on ctx and returns a coverage dict; it never touches ctx.cov
(props/punish_check.py runs it in a thread next to the other stages).
"""
import os
import shutil
import time

from lib import verif as _v
from lib.verif import run_harness, read_jsonl

PKG = "contractcourt"
# the brarflow stage (props/brarflow.py: the breach arbiter's multi-step retribution flow) lives in
# the same package and shares helpers with this harness: both tests run in ONE `go test`
# invocation (one compile + link); TestVerifBrarFlow writes its own trace (VERIF_OUT_BRARFLOW)
FILES = ["contractcourt/verif_breachwatch_test.go", "contractcourt/verif_justiceflow_test.go"]
TEST = "^(TestVerifBreachWatch|TestVerifBrarFlow)$"
WARM = [{"pkg": PKG, "files": FILES}]
ANCHOR = 330


def other(p):
    return "b" if p == "a" else "a"


def _held(row, cheater, h):
    for d in row["held"].get(cheater, []):
        if d["h"] == h:
            return d
    return None


def pred_feed(row, f):
    """Failures (strings) of one transaction handed to one watcher."""
    fails = []
    victim = f["victim"]
    cheater = other(victim)
    h = f.get("h")
    where = "before" if (h is not None and h < f.get("snap_remote_h", 0)) else "after"
    tag = "%s watcher of %s (snapshot at remote height %s, round %s), %s commitment h=%s" % (
        f["watcher"], victim, f.get("snap_remote_h"), f.get("snap_round"), f["expect"], h)
    if f["expect"] == "breach":
        tag += " revoked %s the snapshot" % where
    if f.get("err"):
        fails.append("%s: handleCommitSpend failed: %s" % (tag, f["err"]))
    ev = f.get("events")
    if f["expect"] == "breach":
        if ev != ["breach"]:
            fails.append("%s: NOT recognised as a breach (events %s)" % (tag, ev))
            return fails
        if not f.get("breach_commit_hash_ok") or not f.get("close_type_breach"):
            fails.append("%s: BreachCloseInfo does not name the transaction / close type" % tag)
        rt = f.get("retribution")
        if rt is None or f.get("n_retributions") != 1:
            fails.append("%s: %s retributions handed to the breach arbitrator" % (tag, f.get("n_retributions")))
            return fails
        if not rt["txid_ok"]:
            fails.append("%s: BreachTxHash is not the transaction" % tag)
        if rt["state_num"] != h:
            fails.append("%s: RevokedStateNum %s" % (tag, rt["state_num"]))
        k = _held(row, cheater, h)
        outs = f["outs"]
        dust = row["dust"][cheater]
        if k is None:
            fails.append("%s: no recorded commitment" % tag)
            return fails
        own_sat, oth_sat = k["local_bal"] // 1000, k["remote_bal"] // 1000
        ontx = [x for x in k["htlcs"] if x[4] >= 0]
        claimed = []
        for name, want in (("to_local", own_sat), ("to_remote", oth_sat)):
            e = rt.get(name)
            if (e is None) != (want < dust):
                fails.append("%s: %s retribution %s, balance %d sat, dust limit %d" % (tag, name, e, want, dust))
            if e is None:
                continue
            if e["ok"] != "":
                fails.append("%s: %s sign descriptor does not match output %s: %s" % (tag, name, e["idx"], e["ok"]))
                continue
            claimed.append(e["idx"])
            if e["amt"] != e["tx_amt"] or (h > 0 and e["amt"] != want):
                fails.append("%s: %s amount %s, output %s, balance %s" % (tag, name, e["amt"], e["tx_amt"], want))
        got = []
        for e in rt["htlcs"]:
            if e["ok"] != "":
                fails.append("%s: HTLC sign descriptor does not match output %s: %s" % (tag, e["idx"], e["ok"]))
                continue
            claimed.append(e["idx"])
            if e["amt"] != e["tx_amt"]:
                fails.append("%s: HTLC amount %s, output %s" % (tag, e["amt"], e["tx_amt"]))
            got.append((e["inc"], e["idx"], e["amt"]))
        want = sorted((1 - x[0], x[4], x[1] // 1000) for x in ontx)
        if sorted(got) != want:
            fails.append("%s: HTLC retributions (incoming, output, sat) %s, commitment has %s" % (tag, sorted(got), want))
        if len(set(claimed)) != len(claimed):
            fails.append("%s: an output is claimed twice: %s" % (tag, claimed))
        rest = [outs[i] for i in range(len(outs)) if i not in set(claimed)]
        n_anchor = 0
        if row["anchors"]:
            n_anchor = (1 if (own_sat >= dust or ontx) else 0) + (1 if (oth_sat >= dust or ontx) else 0)
        if len(rest) != n_anchor or any(v != ANCHOR for v in rest):
            fails.append("%s: outputs left unclaimed %s, expected %d anchor(s)" % (tag, rest, n_anchor))
        if rt["justice_err"]:
            fails.append("%s: createJusticeTx failed: %s" % (tag, rt["justice_err"]))
        else:
            if sorted(j["idx"] for j in rt["justice"]) != sorted(claimed):
                fails.append("%s: justice transaction spends outputs %s, retribution claims %s"
                             % (tag, sorted(j["idx"] for j in rt["justice"]), sorted(claimed)))
            for j in rt["justice"]:
                if j["ok"] != "":
                    fails.append("%s: script engine rejects justice input %s (output %s): %s"
                                 % (tag, j["wt"], j["idx"], j["ok"]))
    else:
        want_key = "RemoteHtlcSet" if f["expect"] == "current" else "RemotePendingHtlcSet"
        if ev != ["remote_close"]:
            fails.append("%s: not recognised as a remote unilateral close (events %s)" % (tag, ev))
            return fails
        if f.get("conf_commit_key") != want_key:
            fails.append("%s: commit set key %s, expected %s" % (tag, f.get("conf_commit_key"), want_key))
        if f.get("remote_commit_h") != h:
            fails.append("%s: resolved with the stored commitment of height %s" % (tag, f.get("remote_commit_h")))
        if f.get("n_in", 0) + f.get("n_out", 0) != f.get("n_ontx"):
            fails.append("%s: %s+%s HTLC resolutions for %s HTLC outputs"
                         % (tag, f.get("n_in"), f.get("n_out"), f.get("n_ontx")))
        cr = f.get("commit_resolution")
        if cr is not None and not cr["hash_ok"]:
            fails.append("%s: commit resolution points at another transaction" % tag)
        if cr is not None and f["outs"][cr["idx"]] != cr["amt"]:
            fails.append("%s: commit resolution amount %s, output %s" % (tag, cr["amt"], f["outs"][cr["idx"]]))
        if f["expect"] == "current":
            k = _held(row, cheater, h)
            if k is not None and h > 0:
                has = k["remote_bal"] // 1000 >= row["dust"][cheater]
                if has != (cr is not None):
                    fails.append("%s: commit resolution %s, balance %d sat" % (tag, cr, k["remote_bal"] // 1000))
    return fails


def predicate(row):
    fails = []
    if row.get("aborted"):
        return fails
    for f in row.get("feeds", []):
        fails += pred_feed(row, f)
    return fails


def _read_tolerant(path):
    """JSONL rows of a trace whose writer may have been killed mid-line."""
    import json as _json
    rows = []
    try:
        with open(path) as f:
            for line in f:
                line = line.strip()
                if not line:
                    continue
                try:
                    rows.append(_json.loads(line))
                except ValueError:
                    pass
    except OSError:
        pass
    return rows


def run_stage(ctx):
    t0 = time.time()
    cov = {}
    uid = ctx.uid("_bwp%d" % os.getpid())
    env = {"VERIF_SEED": str(ctx.seed), "VERIF_TIER": ctx.tier}
    trace2 = os.path.join(_v.BUILD, "trace_%s_brarflow.jsonl" % uid)
    env["VERIF_OUT_BRARFLOW"] = trace2
    test = TEST
    only_brar = False
    if ctx.replay:
        import json as _json
        try:
            rep = _json.load(open(ctx.replay))
        except (OSError, ValueError):
            rep = {}
        if "breachwatch" in (rep.get("signature") or "") and (rep.get("detail") or {}).get("case") is not None:
            env.update({"VERIF_SEED": str(rep["detail"].get("seed", ctx.seed)),
                        "VERIF_FIRST_CASE": str(rep["detail"]["case"]), "VERIF_CASES": "1"})
        if "brarflow" in (rep.get("signature") or "") and (rep.get("detail") or {}).get("case") is not None:
            d = rep["detail"]
            env.update({"VERIF_SEED": str(d.get("seed", ctx.seed)), "VERIF_BRAR_FIRST_CASE": str(d["case"]),
                        "VERIF_BRAR_CASES": "1",
                        "VERIF_BRAR_WALK": str(d["walk"] if d.get("walk") is not None else -1)})
            test, only_brar = "^TestVerifBrarFlow$", True
    if os.environ.get("VERIF_PUNISH_NO_BRARFLOW"):
        test = "^TestVerifBreachWatch$"
    rc, trace, out = run_harness(uid, PKG, FILES, test, env=env, timeout=1500)
    rows = read_jsonl(trace) if not only_brar else []
    rows2 = _read_tolerant(trace2)
    for f in (trace, trace2):
        try:
            os.remove(f)
        except OSError:
            pass
    shutil.rmtree(os.path.join(_v.BUILD, "overlay", uid), ignore_errors=True)
    crashed = rc != 0 or (not rows and not only_brar)
    if crashed:
        ctx.violation("harness_failed", "TestVerifBreachWatch/TestVerifBrarFlow", {"rc": rc, "log": out[-4000:]},
                      signature="breachwatch-harness", failing_input=False)
    if "TestVerifBrarFlow" in test:
        from props import brarflow
        if not rows2 and crashed:
            pass
        elif not rows2:
            ctx.violation("harness_failed", "TestVerifBrarFlow emitted no rows", {"rc": rc, "log": out[-3000:]},
                          signature="brarflow-harness", failing_input=False)
        else:
            t1 = time.time()
            cov["brarflow"] = brarflow.evaluate(ctx, rows2)
            cov["brarflow"]["predicate_s"] = round(time.time() - t1, 1)
            t1 = time.time()
            brarflow.correspond(ctx, rows2, cov["brarflow"])
            cov["brarflow"]["correspondence_s"] = round(time.time() - t1, 1)
    if crashed:
        # (the rows the brarflow test flushed before a crash were evaluated above: a concrete
        # failing history beats the bare crash report)
        cov["ok"] = False
        return cov
    if only_brar:
        cov.update({"ok": bool(cov.get("brarflow", {}).get("ok")), "replayed": "brarflow",
                    "wall_s": round(time.time() - t0, 1)})
        return cov
    nviol, nbad = 0, 0
    hist = {"breach_before_snapshot": 0, "breach_after_snapshot": 0, "current": 0, "pending": 0,
            "watchers": {}, "justice_inputs": {}, "chan_type": {}, "aborted": {}}
    for row in rows:
        hist["chan_type"][row["chan_type"]] = hist["chan_type"].get(row["chan_type"], 0) + 1
        if row.get("aborted"):
            hist["aborted"][row["aborted"][:60]] = hist["aborted"].get(row["aborted"][:60], 0) + 1
        for f in row.get("feeds", []):
            hist["watchers"][f["watcher"]] = hist["watchers"].get(f["watcher"], 0) + 1
            if f["expect"] == "breach":
                key = "breach_before_snapshot" if f["h"] < f["snap_remote_h"] else "breach_after_snapshot"
                hist[key] += 1
                for j in (f.get("retribution") or {}).get("justice", []):
                    hist["justice_inputs"][j["wt"]] = hist["justice_inputs"].get(j["wt"], 0) + 1
            else:
                hist[f["expect"]] += 1
        fails = predicate(row)
        if not fails:
            continue
        nbad += 1
        if nviol < 3:
            nviol += 1
            ctx.violation("impl_violates_predicate",
                          "C04 breachwatch: every revoked state fed to the chain watcher is recognised as a "
                          "breach with a retribution matching the transaction",
                          {"case": row.get("case"), "seed": row.get("seed"), "chan_type": row.get("chan_type"),
                           "rounds": row.get("rounds"), "snap_round": row.get("snap_round"),
                           "reload_round": row.get("reload_round"), "fails": fails[:8], "n_fails": len(fails),
                           "ops": row.get("ops"),
                           "replay": "VERIF_SEED=%s VERIF_FIRST_CASE=%s VERIF_CASES=1 (TestVerifBreachWatch)"
                                     % (row.get("seed"), row.get("case"))},
                          signature="c04 breachwatch %s" % fails[0][:140])
    if len(rows) and all(r.get("aborted") for r in rows):
        ctx.violation("harness_failed", "TestVerifBreachWatch: every schedule aborted",
                      {"aborted": hist["aborted"]}, signature="breachwatch-harness", failing_input=False)
    cov.update({"ok": nbad == 0, "schedules": len(rows),
                "transactions_fed": sum(len(r.get("feeds", [])) for r in rows),
                "failing_schedules": nbad, "histograms": hist, "wall_s": round(time.time() - t0, 1)})
    return cov
