"""C09 helper — the "argument plumbing" stage (harness/htlcswitch/verif_policy_paths_test.go).

Every row is one HTLC sent Alice -> Bob -> Carol through the REAL link + switch,
on one of the paths by which a forwarded ADD reaches the policy check (first-time
forward, first-time branch after a restart, re-forward branch after a restart /
link flap with the forward filter persisted and no circuit, replay against a
half-open circuit).  The row carries the inputs AS CONFIGURED (policy of Bob's
outgoing channel, inbound fee of Bob's incoming channel, the HTLC as sent, the
switch's height), every observed call of CheckHtlcForward (arguments + answer)
and the end-to-end outcome (did the HTLC reach Carol / which failure reached
Alice).

Judged here (python, written from the property text):
  * the decision function must be CALLED WITH the values the property's rule
    takes from the channel policies and the HTLC (any difference = a plumbing bug,
    e.g. inbound fee dropped on one path, timeouts swapped);
  * forwarded  =>  an accepting decision exists (and, via c09.predicate on the
    row, every clause holds on the configured inputs);
  * rejecting decision  =>  not forwarded, and the failure that reaches the
    sender is the decision's failure;
  * every clause holds  =>  the decision accepts (c09.predicate), and the HTLC
    leaves on the outgoing link unless the path itself explains a later
    non-policy failure (stop right after the circuit commit).
The rows that carry a policy decision are ALSO appended to the ordinary C09 rows,
i.e. go through c09.predicate and the Coq model (extracted + kernel) with the
CONFIGURED inputs: model decision on policy inputs vs decision observed on that
path.
"""

# paths on which a compliant HTLC may legitimately end with a non-policy failure
# after (or instead of) the policy decision: the stop is placed right after
# CommitCircuits, so either the replay meets a half-open circuit loaded from disk
# (switch fails it: TemporaryChannelFailure / IncompleteForward, no decision), or
# the packet is handled while its incoming link is being torn down
# (handlePacketAdd: incoming link not found -> TemporaryChannelFailure).
NON_POLICY_PATHS = ("committed/restart", "committed/flap")

ARG_FIELDS = ("in", "out", "inexp", "outexp", "ibase", "irate", "height")


def wire_of(name):
    return (name or "").split("/")[0]


def judge(r):
    """-> list of (kind, theorem, message, failing_input, signature-tail)."""
    out = []
    path = r["path"]
    if r.get("note"):
        return [("harness_failed", "TestVerifPolicyPaths",
                 "scenario did not complete: %s" % r["note"], False, "incomplete")]
    calls = r.get("calls") or []
    fwd = r.get("forwarded", 0)
    if path != "live" and not r.get("fired"):
        out.append(("harness_failed", "TestVerifPolicyPaths",
                    "stop point of %s not reached" % path, False, "no-stop-point"))
    # ---- argument plumbing
    exp = {k: r[k] for k in ARG_FIELDS}
    for k in calls:
        diff = {f: (k[f], exp[f]) for f in ARG_FIELDS if k[f] != exp[f]}
        if k.get("scid") != r.get("out_scid"):
            diff["original_scid"] = (k.get("scid"), r.get("out_scid"))
        if diff:
            out.append(("impl_violates_predicate", "C09 argument plumbing",
                        "on path %s the policy decision was evaluated on %s (passed, configured) "
                        "instead of the channel policy / HTLC values" % (
                            path, ", ".join("%s=%s" % kv for kv in sorted(diff.items()))),
                        True, "args " + ",".join(sorted(diff))))
            break
    # ---- decision vs what happened end to end
    if not calls:
        if fwd or r.get("alice_ok"):
            out.append(("impl_violates_predicate", "C09_sound (end to end)",
                        "HTLC left on the outgoing link on path %s without any policy decision" % path,
                        True, "forwarded-without-decision"))
        elif path != "committed/restart":
            out.append(("impl_violates_predicate", "C09 decision reachability",
                        "HTLC on path %s never reached the policy decision (failure at sender: %s)" % (
                            path, r.get("alice_err")), True, "no-decision"))
        return out
    last = calls[-1]
    if fwd and not any(k["code"] == 0 for k in calls):
        out.append(("impl_violates_predicate", "C09_sound (end to end)",
                    "HTLC left on the outgoing link on path %s although the policy decision was %s" % (
                        path, last["name"]), True, "forwarded-despite-reject"))
    if last["code"] != 0:
        if not fwd and (r.get("alice_ok") or r.get("alice_err") != wire_of(last["name"])
                        or r.get("alice_arg", 0) != last["arg"]):
            out.append(("impl_violates_predicate", "C09_failure_names_violated_rule (end to end)",
                        "decision %s(%d) on path %s but the sender received %s(%d)" % (
                            last["name"], last["arg"], path, r.get("alice_err") or "success",
                            r.get("alice_arg", 0)), True, "failure-relay"))
    elif not fwd and path not in NON_POLICY_PATHS:
        out.append(("impl_violates_predicate", "C09_complete (end to end)",
                    "policy decision accepted on path %s but the HTLC never left on the outgoing "
                    "link (sender received %s)" % (path, r.get("alice_err")), True, "accepted-not-forwarded"))
    return out


def sign_class(r):
    b, t = r["ibase"], r["irate"]
    if b == 0 and t == 0:
        return "none"
    if b <= 0 and t <= 0:
        return "discount"
    if b >= 0 and t >= 0:
        return "surcharge"
    return "mixed"


def coverage(prows):
    def hist(f):
        h = {}
        for r in prows:
            k = f(r)
            h[k] = h.get(k, 0) + 1
        return dict(sorted(h.items(), key=lambda kv: str(kv[0])))
    return {
        "scenarios": len(prows),
        "by_path": hist(lambda r: r["path"]),
        "by_boundary": hist(lambda r: ("fee%+d (2nd htlc of a batch)" % r["spec"].get("d2", 0)) if r.get("htlc") == 2
                            else "%s%+d" % (r["spec"]["rule"], r["spec"]["d"])),
        "policy_set_via": hist(lambda r: "UpdateForwardingPolicy" if r["spec"].get("upd") else "link config"),
        "fwd_pkg_adds_processed": hist(lambda r: ",".join(str(x) for x in (r.get("pkgs") or []))),
        "by_inbound_fee": hist(sign_class),
        "by_path_x_inbound": hist(lambda r: "%s|%s" % (r["path"], sign_class(r))),
        "decision_calls_per_htlc": hist(lambda r: len(r.get("calls") or [])),
        "decision_phase": hist(lambda r: ",".join(
            "after-fault" if k["phase"] else "before-fault" for k in (r.get("calls") or [])) or "none"),
        "decisions": hist(lambda r: "%s -> %s" % (r["path"], r["name"])),
        "end_to_end": hist(lambda r: "forwarded+settled" if r.get("settled") else
                           "forwarded, failed by exit hop" if r.get("forwarded") else
                           "failed back: %s" % wire_of(r.get("alice_err")) if r.get("alice_err") else
                           "incomplete"),
        "stop_point_reached": sum(1 for r in prows if r.get("fired")),
        "max_wall_ms": max([r.get("wall_ms", 0) for r in prows] or [0]),
    }
