"""C01 — see props/chan_check.py (shared channel state-machine driver)."""
from props import chan_check

WARM = chan_check.WARM


def run(ctx):
    chan_check.run_prop(ctx, "C01")
