"""C04 stage "brarflow": the BREACH ARBITER's multi-step retribution flow on real data
(contractcourt/breach_arbitrator.go: exactRetribution / createJusticeTx / waitForSpendEvent /
updateBreachInfo / convertToSecondLevelRevoke / RetributionStore).

Harness: harness/contractcourt/verif_justiceflow_test.go (TestVerifBrarFlow), run in the same `go test`
invocation as the breachwatch stage (props/breachwatch.py) - it writes its own trace file
(VERIF_OUT_BRARFLOW).  Two drivers, "mirror" (the steps of exactRetribution in its order, batch
composition chosen by the harness) and "live" (the real arbiter goroutines over a mock notifier).

Ids: `L<i>` = output i of the revoked commitment, `S<i>` = output of the cheater's second-level
transaction spending L<i>.

`evaluate(ctx, rows)` reports violations on ctx and returns a coverage dict (it never touches
ctx.cov); `flow_terms(rows)` turns the mirror walks into Coq terms for Channel/BrarFlowExec.v.
"""
import re

ANCHOR = 330
SECOND_WT = ("HtlcSecondLevelRevoke", "TaprootHtlcSecondLevelRevoke")
HTLC_WT = ("HtlcAcceptedRevoke", "HtlcOfferedRevoke", "TaprootHtlcAcceptedRevoke",
           "TaprootHtlcOfferedRevoke")


def _universe(row):
    """(expected initial ids, htlc ids, on-chain amount by id)."""
    outs = row["outs"]
    amt = {"L%d" % i: v for i, v in enumerate(outs)}
    hid = set()
    for h in row["htlcs"]:
        hid.add("L%d" % h["idx"])
        amt["S%d" % h["idx"]] = h["second_amt"]
    exp0 = set()
    for i, v in enumerate(outs):
        if row["anchors"] and v == ANCHOR and ("L%d" % i) not in hid:
            continue
        exp0.add("L%d" % i)
    return exp0, hid, amt


def _check_tx(tag, v, hid, amt, fails, quiescent=None, fee_exact=True):
    """One justice transaction: inputs exist, engine verdicts, amounts."""
    ids = []
    tot = 0
    for e in v.get("ins", []):
        i = e["id"]
        ids.append(i)
        who = "%s variant '%s' input %s (arbiter witness type %s)" % (tag, v["name"], i, e.get("wt"))
        if i.startswith("?"):
            fails.append("%s: spends an outpoint that is not an output of the revoked commitment or of a "
                         "second-level transaction" % who)
            continue
        if e.get("std"):
            if e.get("cons"):
                fails.append("%s: witness INVALID UNDER CONSENSUS rules against the on-chain output: %s"
                             % (who, e["cons"]))
            else:
                fails.append("%s: witness rejected under the standard script flags (would not relay): %s"
                             % (who, e["std"]))
        if e.get("amt") != amt.get(i):
            fails.append("%s: harness chain amount %s differs from %s" % (who, e.get("amt"), amt.get(i)))
        tot += e.get("amt") or 0
        if "sd_amt" in e and e["sd_amt"] != e.get("amt"):
            fails.append("%s: sign-descriptor amount %s, on-chain output %s" % (who, e["sd_amt"], e.get("amt")))
        if e.get("sd_op_ok") is False:
            fails.append("%s: transaction input differs from the breached output's outpoint" % who)
        wt = e.get("wt")
        if wt is not None:
            if i[0] == "S" and wt not in SECOND_WT:
                fails.append("%s: second-level output tracked with a first-level witness type" % who)
            if i[0] == "L" and i in hid and wt not in HTLC_WT:
                fails.append("%s: first-level HTLC output tracked with witness type %s" % (who, wt))
            if i[0] == "L" and i not in hid and (wt in HTLC_WT or wt in SECOND_WT):
                fails.append("%s: commitment output tracked with an HTLC witness type" % who)
        if quiescent and e.get("spent"):
            fails.append("%s: spends an output that is already spent on chain" % who)
    if len(set(ids)) != len(ids):
        fails.append("%s variant '%s': an output is spent twice: %s" % (tag, v["name"], ids))
    so = sum(v.get("outs", []))
    fee = tot - so
    if not any(i.startswith("?") for i in ids):
        if fee_exact and fee != v.get("fee"):
            fails.append("%s variant '%s': inputs %d sat - outputs %d sat = %d, fee accounted %s (amounts not "
                         "conserved)" % (tag, v["name"], tot, so, fee, v.get("fee")))
        if not (0 < fee < 6000) or so <= 0:
            fails.append("%s variant '%s': inputs %d sat, outputs %d sat" % (tag, v["name"], tot, so))
    return ids


def _check_build(tag, b, hid, amt, fails, quiescent):
    if b.get("err"):
        fails.append("%s: createJusticeTx / updateBreachInfo failed: %s" % (tag, b["err"]))
        return None
    vs = [v for v in b["variants"] if not v.get("nil")]
    by = {}
    for v in vs:
        by.setdefault(v["name"], []).append(v)
    if "all" not in by:
        fails.append("%s: no spend-all justice transaction" % tag)
        return None
    ids = {}
    for v in vs:
        ids[id(v)] = _check_tx(tag, v, hid, amt, fails, quiescent=quiescent)
    allids = ids[id(by["all"][0])]
    parts = []
    for v in by.get("commit", []):
        l = ids[id(v)]
        parts += l
        if any(i[0] != "L" or i in hid for i in l):
            fails.append("%s: commit-outputs variant spends %s" % (tag, l))
    for v in by.get("htlc", []):
        l = ids[id(v)]
        parts += l
        if any(i not in hid for i in l):
            fails.append("%s: HTLC-outputs variant spends %s" % (tag, l))
    for v in by.get("second", []):
        l = ids[id(v)]
        parts += l
        if len(l) != 1 or l[0][0] != "S":
            fails.append("%s: second-level variant spends %s" % (tag, l))
    if sorted(parts) != sorted(allids):
        fails.append("%s: the split variants cover %s, spend-all covers %s (an output is covered by no / "
                     "two split variants)" % (tag, sorted(parts), sorted(allids)))
    tr = [t["id"] for t in b.get("tracked", [])]
    if sorted(tr) != sorted(allids):
        fails.append("%s: arbiter tracks %s, spend-all spends %s" % (tag, sorted(tr), sorted(allids)))
    return allids


def pred_mirror(row):
    fails = []
    exp0, hid, amt = _universe(row)
    for h in row["htlcs"]:
        if h["second_ok"]:
            # the cheater's own second-level transaction must be valid: harness sanity
            fails.append("harness: the cheater's second-level transaction for output %s is rejected by the "
                         "engine: %s" % (h["idx"], h["second_ok"]))
    spent, created = set(), set()
    for si, st in enumerate(row.get("steps", [])):
        ev = st["ev"]
        if ev == "adv":
            for i in st["spent"]:
                spent.add(i)
                created.add("S" + i[1:])
        elif ev in ("jcommit", "jhtlc", "jall", "jsec", "lose"):
            spent.update(st["spent"])
        if ev == "restart" and st.get("err"):
            fails.append("step %d restart: retribution could not be reloaded from the store: %s"
                         % (si, st["err"]))
        exp = (exp0 - spent) | (created - spent)
        builds = st.get("builds", [])
        for bi, b in enumerate(builds):
            tag = "step %d (%s%s) build %d/%s" % (si, ev, " " + ",".join(st.get("spent", [])) if st.get("spent") else "",
                                                 bi, b.get("why"))
            if b.get("batch"):
                tag += " after spends [%s]" % ",".join(b["batch"])
            tr = [t["id"] for t in b.get("tracked", [])]
            q = not any(i in spent for i in tr)
            if b.get("why") == "resolved":
                if exp:
                    fails.append("%s: arbiter considers the breach resolved, outputs %s are still unspent and "
                                 "punishable" % (tag, sorted(exp)))
                continue
            allids = _check_build(tag, b, hid, amt, fails, q)
            if allids is None:
                continue
            if b.get("why") == "restart" and set(allids) != exp0:
                fails.append("%s: retribution reloaded from the store covers %s, the breach had %s"
                             % (tag, sorted(allids), sorted(exp0)))
            if b.get("why") == "initial" and set(allids) != exp0:
                fails.append("%s: first justice transaction covers %s, non-anchor outputs of the revoked "
                             "commitment are %s" % (tag, sorted(allids), sorted(exp0)))
            if q and set(allids) != exp:
                fails.append("%s: justice covers %s, breached outputs still unspent are %s"
                             % (tag, sorted(allids), sorted(exp)))
        if builds and ev != "breach":
            last = builds[-1]
            tr = [t["id"] for t in last.get("tracked", [])]
            if last.get("why") != "resolved" and any(i in spent for i in tr) and not last.get("err"):
                fails.append("step %d (%s): spends of tracked outputs are never consumed: %s" % (si, ev, tr))
        elif not builds and ev not in ("breach",) and exp != set():
            # a chain event that touched no tracked outpoint leaves the retribution alone
            pass
    return fails


def pred_live(row):
    fails = []
    exp0, hid, amt = _universe(row)
    pending = set(exp0)
    first = True
    for si, st in enumerate(row.get("steps", [])):
        ev = st["ev"]
        pubs = st.get("published", [])
        if ev == "epoch":
            got = []
            for v in pubs:
                got += _check_tx("step %d (block epoch past the split height)" % si, v, hid, amt, fails,
                                 fee_exact=False)
                l = [e["id"] for e in v.get("ins", [])]
                kinds = {("S" if i[0] == "S" else "H" if i in hid else "C") for i in l}
                if len(kinds) > 1 or (kinds == {"S"} and len(l) != 1):
                    fails.append("step %d: split justice transaction mixes outputs %s" % (si, l))
            if sorted(got) != sorted(pending):
                fails.append("step %d: split justice transactions published after the block epoch cover %s, "
                             "pending outputs %s" % (si, sorted(got), sorted(pending)))
            continue
        todo = list(st.get("spent", []))

        def apply(i):
            if i in pending:
                pending.discard(i)
                if ev == "adv":
                    pending.add("S" + i[1:])

        for v in pubs:
            tag = "step %d (%s %s) publication '%s'" % (si, ev, ",".join(st.get("spent", [])), v["name"])
            ids = _check_tx(tag, v, hid, amt, fails, fee_exact=False)
            if "after" in v:
                while todo:
                    i = todo.pop(0)
                    apply(i)
                    if i == v["after"]:
                        break
            if v["name"] == "published":
                if first:
                    first = False
                    if set(ids) != exp0:
                        fails.append("%s: first justice transaction covers %s, non-anchor outputs %s"
                                     % (tag, sorted(ids), sorted(exp0)))
                elif set(ids) != pending:
                    fails.append("%s: published justice covers %s, breached outputs still unspent %s"
                                 % (tag, sorted(ids), sorted(pending)))
        for i in todo:
            apply(i)
    if row.get("stalled"):
        fails.append("live arbiter: %s (pending %s)" % (row["stalled"], sorted(pending)))
    elif row.get("resolved") and not row.get("store_cleaned"):
        fails.append("live arbiter: every output resolved but the retribution is still in the store")
    return fails


def predicate(row):
    if row.get("aborted"):
        return []
    return pred_live(row) if row.get("mode") == "live" else pred_mirror(row)


def _inc(d, k, n=1):
    d[k] = d.get(k, 0) + n


def histograms(rows):
    h = {"walks": {"mirror": 0, "live": 0}, "chan_type": {}, "n_htlcs": {}, "events": {}, "batch_policy": {},
         "builds": {"initial": 0, "update": 0, "restart": 0, "resolved": 0}, "builds_quiescent": 0,
         "variants": {}, "inputs_executed": 0, "inputs_by_witness_type": {}, "live_publications": {},
         "second_level_inputs_signed": 0, "second_level_inputs_resigned_after_first_level_signature": 0,
         "builds_with_converted_output_moved_to_lower_slot": 0, "aborted": {}, "stalled": 0,
         "htlc_direction": {"cheater_incoming": 0, "cheater_outgoing": 0}}
    for r in rows:
        if r.get("aborted"):
            _inc(h["aborted"], str(r["aborted"])[:60])
            continue
        _inc(h["walks"], r.get("mode", "?"))
        _inc(h["chan_type"], r["chan_type"])
        _inc(h["n_htlcs"], str(len(r["htlcs"])))
        for x in r["htlcs"]:
            _inc(h["htlc_direction"], "cheater_incoming" if x["inc"] else "cheater_outgoing")
        if r.get("stalled"):
            h["stalled"] += 1
        signed_first = set()
        prev_pos = {}
        for st in r.get("steps", []):
            _inc(h["events"], "%s:%s" % (r.get("mode"), st["ev"]))
            if "policy" in st and st["ev"] != "breach":
                _inc(h["batch_policy"], {0: "all_at_once", 1: "one_at_a_time", 2: "subset"}.get(st["policy"], "?"))
            if st["ev"] == "restart":
                signed_first = set()
            for b in st.get("builds", []):
                _inc(h["builds"], b.get("why", "?"))
                if b.get("quiescent"):
                    h["builds_quiescent"] += 1
                pos = {t["id"]: i for i, t in enumerate(b.get("tracked", []))}
                if any(i[0] == "S" and ("L" + i[1:]) in prev_pos and p < prev_pos["L" + i[1:]]
                       or (i[0] == "S" and i in prev_pos and p < prev_pos[i]) for i, p in pos.items()):
                    h["builds_with_converted_output_moved_to_lower_slot"] += 1
                prev_pos = pos
                for v in b.get("variants", []):
                    if v.get("nil"):
                        continue
                    _inc(h["variants"], v["name"])
                    for e in v.get("ins", []):
                        h["inputs_executed"] += 1
                        _inc(h["inputs_by_witness_type"], str(e.get("wt")))
                        if e["id"][0] == "S":
                            h["second_level_inputs_signed"] += 1
                            if ("L" + e["id"][1:]) in signed_first:
                                h["second_level_inputs_resigned_after_first_level_signature"] += 1
                for v in b.get("variants", []):
                    for e in v.get("ins", []) if not v.get("nil") else []:
                        if e["id"][0] == "L":
                            signed_first.add(e["id"])
            for v in st.get("published", []):
                _inc(h["live_publications"], v["name"])
                h["inputs_executed"] += len(v.get("ins", []))
    return h


def evaluate(ctx, rows):
    nbad, nviol = 0, 0
    kinds = {}
    for row in rows:
        fails = predicate(row)
        if not fails:
            continue
        nbad += 1
        m = re.search(r"\): (.*)", fails[0])
        k = (m.group(1) if m else fails[0].split(": ", 1)[-1]).strip()[:70]
        kinds[k] = kinds.get(k, 0) + 1
        if nviol < 3:
            nviol += 1
            script = [{k2: v for k2, v in st.items() if k2 in ("ev", "policy", "spent")}
                      | {"batches": [b.get("batch") for b in st.get("builds", []) if b.get("batch")]}
                      for st in row.get("steps", [])]
            ctx.violation(
                "impl_violates_predicate",
                "C04 brarflow: after every (re)build of the breach arbiter's justice transactions every input "
                "is a valid spend of the output that exists on chain, and the variants cover exactly the "
                "breached outputs still unspent",
                {"case": row.get("case"), "walk": row.get("walk"), "mode": row.get("mode"),
                 "seed": row.get("seed"), "chan_type": row.get("chan_type"), "victim": row.get("victim"),
                 "revoked_height": row.get("h"),
                 "htlcs": [(x["idx"], "success" if x["inc"] else "timeout", x["amt"]) for x in row.get("htlcs", [])],
                 "outs": row.get("outs"), "fails": fails[:8], "n_fails": len(fails), "history": script,
                 "replay": "VERIF_SEED=%s VERIF_BRAR_FIRST_CASE=%s VERIF_BRAR_CASES=1 VERIF_BRAR_WALK=%s "
                           "(TestVerifBrarFlow)" % (row.get("seed"), row.get("case"), row.get("walk", -1))},
                signature="c04 brarflow %s" % fails[0][:140])
    live = [r for r in rows if not r.get("aborted")]
    if rows and not live:
        ctx.violation("harness_failed", "TestVerifBrarFlow: every case aborted",
                      {"aborted": sorted({str(r.get("aborted"))[:120] for r in rows})[:5]},
                      signature="brarflow-harness", failing_input=False)
    h = histograms(rows)
    return {"ok": nbad == 0, "walks": len(live), "failing_walks": nbad, "failure_kinds": kinds,
            "justice_builds": sum(h["builds"].values()) - h["builds"].get("resolved", 0),
            "inputs_executed": h["inputs_executed"], "histograms": h}


# ---------------------------------------------------------------------------
# correspondence with Channel/BrarFlow.v (Channel/BrarFlowExec.mismatches_flow)

IMPORTS = ("From Coq Require Import List NArith Bool.\nImport ListNotations.\n"
           "From LV Require Import Channel.BrarFlow Channel.BrarFlowExec.\n")
TARGETS = ["theories/Channel/BrarFlow.vo", "theories/Channel/BrarFlowProofs.vo",
           "theories/Channel/BrarFlowExec.vo", "theories/Channel/BrarFlowExamples.vo"]
THEOREMS = ["C04_rebuild_covers_unspent_at_current_level", "C04_rebuild_witness_follows_current_level",
            "C04_rebuild_signs_existing_outputs", "C04_justice_variants_partition"]
UNKNOWN_ID = 999999


def _idnum(i):
    try:
        return int(i[1:]) if i[0] in "LS" else UNKNOWN_ID
    except ValueError:
        return UNKNOWN_ID


def _kind_code(wt):
    wt = str(wt)
    if wt in SECOND_WT:
        return 5
    if "HtlcOffered" in wt:
        return 3
    if "HtlcAccepted" in wt:
        return 4
    if "CommitmentRevoke" in wt:
        return 2
    return 1


def shape_class(taproot, wlens):
    """Witness shape observed on the signed transaction (see BrarFlowExec.shape)."""
    n = len(wlens)
    if taproot:
        return 4 if n == 1 else 5 if n == 3 else 9
    if n == 2:
        return 3
    if n == 3 and wlens[1] <= 1:
        return 1
    if n == 3 and wlens[1] == 33:
        return 2
    return 9


def _oin(taproot, e):
    i = e["id"]
    return "(%d, %s, %d, %d)" % (_idnum(i), "true" if i[0] == "S" else "false",
                                 shape_class(taproot, e.get("wlens", [])), e.get("amt") or 0)


def _obs(taproot, b):
    by = {"all": [], "commit": [], "htlc": []}
    seconds = []
    for v in b.get("variants", []):
        if v.get("nil"):
            continue
        l = "[" + "; ".join(_oin(taproot, e) for e in v.get("ins", [])) + "]"
        if v["name"] == "second":
            seconds.append(l)
        else:
            by[v["name"]] = l
    return "(%s, %s, %s, [%s])" % (by["all"] or "[]", by["commit"] or "[]", by["htlc"] or "[]",
                                   "; ".join(seconds))


def flow_terms(rows):
    """One Coq term (BrarFlowExec.fcase) per mirror walk + per-op descriptions."""
    terms, metas, walks = [], [], []
    for row in rows:
        if row.get("aborted") or row.get("mode") != "mirror" or not row.get("steps"):
            continue
        tap = bool(row.get("taproot"))
        _, hid, amt = _universe(row)
        first = row["steps"][0]["builds"][0]
        if first.get("err"):
            continue
        l0 = "[" + "; ".join("(%d, %d, %d)" % (_idnum(t["id"]), _kind_code(t["wt"]), amt.get(t["id"], 0))
                             for t in first.get("tracked", [])) + "]"
        ops, meta = [], []
        created = set()
        stop = False
        for si, st in enumerate(row["steps"]):
            if st["ev"] == "adv":
                created.update("S" + i[1:] for i in st["spent"])
            for b in st.get("builds", []):
                why = b.get("why")
                if b.get("err"):
                    stop = True
                    break
                if why == "initial":
                    code, batch = 0, []
                elif why == "restart":
                    code, batch = 1, []
                else:
                    code, batch = 2, []
                    for x in b.get("batch", []):
                        idx, i = x.split(":", 1)
                        if i[0] == "L" and i in hid and ("S" + i[1:]) in created:
                            batch.append("(%s%%nat, 1, %d)" % (idx, amt.get("S" + i[1:], 0)))
                        else:
                            batch.append("(%s%%nat, 0, 0)" % idx)
                ops.append("(%d, [%s], %s)" % (code, "; ".join(batch), _obs(tap, b)))
                meta.append("step %d (%s) build '%s' batch %s" % (si, st["ev"], why, b.get("batch")))
            if stop:
                break
        terms.append("(%s, %s, [%s])%%N" % ("true" if tap else "false", l0, ";\n  ".join(ops)))
        metas.append(meta)
        walks.append(row)
    return terms, metas, walks


def correspond(ctx, rows, cov):
    """Replay the batches of every mirror walk on the Coq model and compare every (re)build."""
    from lib.verif import coq_mismatches
    import glob
    import os
    from lib import verif as _v
    terms, metas, walks = flow_terms(rows)
    if not terms:
        cov["correspondence"] = "no mirror walks"
        return
    uid = ctx.uid("_bf%d" % os.getpid())
    ok, bad, logs = coq_mismatches(uid, IMPORTS, terms, mism="mismatches_flow",
                                   shard=max(1, (len(terms) + 3) // 4), timeout=1200)
    if not ok:
        ctx.violation("correspondence_mismatch", "Channel.BrarFlowExec (model evaluation failed)",
                      {"logs": [l[-2500:] for l in logs[:3]]}, signature="brarflow-model-eval",
                      failing_input=False)
    for ci, codes in bad[:3]:
        row = walks[ci]
        what = []
        for c in codes[:6]:
            if c >= 1000:
                what.append("BrarFlow.update_info: slice index out of range @ %s"
                            % (metas[ci][c - 1000] if c - 1000 < len(metas[ci]) else c))
            else:
                what.append("slice / justice variants (outpoint, level, witness shape, amount, order) differ "
                            "from BrarFlow.build @ %s" % (metas[ci][c] if c < len(metas[ci]) else c))
        ctx.violation("correspondence_mismatch", "Channel.BrarFlowExec.mismatches_flow",
                      {"case": row.get("case"), "walk": row.get("walk"), "seed": row.get("seed"),
                       "chan_type": row.get("chan_type"), "victim": row.get("victim"), "codes": codes,
                       "meaning": what,
                       "replay": "VERIF_SEED=%s VERIF_BRAR_FIRST_CASE=%s VERIF_BRAR_CASES=1 VERIF_BRAR_WALK=%s "
                                 "(TestVerifBrarFlow)" % (row.get("seed"), row.get("case"), row.get("walk"))},
                      signature="c04 brarflow mismatch")
    cov["correspondence"] = {"walks_replayed_in_model": len(terms),
                             "builds_compared": sum(len(m) for m in metas), "mismatches": len(bad)}
    for f in glob.glob(os.path.join(_v.BUILD, "coq_eval", "cases_%s_*.v" % uid)):
        try:
            os.remove(f)
        except OSError:
            pass
