"""C06 stage "points": every value of the node's OWN per-commitment chain that leaves it
(channel_ready, revoke_and_ack, channel_reestablish; at funding level also open_channel /
accept_channel) must carry exactly the index its slot requires, at every channel height, after
reloads, whichever code path builds the message (notes/C06.md has the table of call sites).

Harnesses (real code, `go test -overlay`):
  harness/lnwallet/verif_points_test.go  TestVerifPoints      schedules with restarts / resync
  harness/peer/verif_points_test.go      TestVerifPeerPoints  peer.loadActiveChannels re-send
  harness/funding/verif_points_test.go   TestVerifFundingPoints  funding flow + processChannelReady

Judged by (1) a python predicate that recomputes the chain from the producer root with hashlib
and its own secp256k1 (no lnd code, no Coq) and (2) the Coq slot model (Shachain/SlotExec.v,
`mismatches` by vm_compute): the index each observed value resolves to must be the one
`SlotModel.step` prescribes.

`run_stage(ctx)` returns (coverage dict, [violation kwargs]); it never touches ctx (it runs in a
thread next to the other stages of props/c06.py, which reports the violations afterwards).
"""
import hashlib
import os
import shutil
import time

from lib import verif as _v
from lib.verif import run_harness, read_jsonl, coq_mismatches

HARNESSES = [
    {"stage": "lnwallet", "pkg": "lnwallet", "files": ["lnwallet/verif_points_test.go"],
     "test": "^TestVerifPoints$"},
    {"stage": "peer", "pkg": "peer", "files": ["peer/verif_points_test.go"],
     "test": "^TestVerifPeerPoints$"},
    {"stage": "funding", "pkg": "funding", "files": ["funding/verif_points_test.go"],
     "test": "^TestVerifFundingPoints$"},
]
HARNESSES = [h for h in HARNESSES
             if os.path.exists(os.path.join(_v.ROOT, "harness", h["files"][0]))]
WARM = [{"pkg": h["pkg"], "files": h["files"]} for h in HARNESSES]
IMPORTS = ("From Coq Require Import List NArith.\nImport ListNotations.\n"
           "From LV Require Import Shachain.SlotModel Shachain.SlotExec.\n")
NOT_ON_CHAIN = 2 ** 48
START = 2 ** 48 - 1

# ---- secp256k1, independent of lnd ------------------------------------------------------------
_P = 2 ** 256 - 2 ** 32 - 977
_GX = 0x79BE667EF9DCBBAC55A06295CE870B07029BFCDB2DCE28D959F2815B16F81798
_GY = 0x483ADA7726A3C4655DA4FBFC0E1108A8FD17B448A68554199C47D08FFB10D4B8


def _jdbl(pt):
    x, y, z = pt
    if y == 0:
        return (0, 1, 0)
    s = (4 * x * y * y) % _P
    m = (3 * x * x) % _P
    x2 = (m * m - 2 * s) % _P
    y2 = (m * (s - x2) - 8 * y * y * y * y) % _P
    return (x2, y2, (2 * y * z) % _P)


def _jadd(p1, p2):
    if p1[2] == 0:
        return p2
    if p2[2] == 0:
        return p1
    x1, y1, z1 = p1
    x2, y2, z2 = p2
    z1z1, z2z2 = z1 * z1 % _P, z2 * z2 % _P
    u1, u2 = x1 * z2z2 % _P, x2 * z1z1 % _P
    s1, s2 = y1 * z2 * z2z2 % _P, y2 * z1 * z1z1 % _P
    if u1 == u2:
        return _jdbl(p1) if s1 == s2 else (0, 1, 0)
    h, r = (u2 - u1) % _P, (s2 - s1) % _P
    h2 = h * h % _P
    h3 = h * h2 % _P
    x3 = (r * r - h3 - 2 * u1 * h2) % _P
    y3 = (r * (u1 * h2 - x3) - s1 * h3) % _P
    return (x3, y3, h * z1 * z2 % _P)


def commit_point(secret_hex):
    """compressed secp256k1 point secret*G (hex)."""
    k = int(secret_hex, 16)
    acc, add = (0, 1, 0), (_GX, _GY, 1)
    while k:
        if k & 1:
            acc = _jadd(acc, add)
        add = _jdbl(add)
        k >>= 1
    if acc[2] == 0:
        return "00"
    zi = pow(acc[2], _P - 2, _P)
    x, y = acc[0] * zi * zi % _P, acc[1] * zi * zi * zi % _P
    return ("03" if y & 1 else "02") + "%064x" % x


def chain_secret(root_hex, v):
    """BOLT-3 generate_from_seed: per-commitment secret of commitment number v."""
    idx = START - v
    buf = bytearray(bytes.fromhex(root_hex))
    for b in range(47, -1, -1):
        if (idx >> b) & 1:
            buf[b // 8] ^= 1 << (b % 8)
            buf = bytearray(hashlib.sha256(bytes(buf)).digest())
    return bytes(buf).hex()


_chain_cache = {}


def chain(root_hex, n):
    """([secret hex], [point hex]) for commitment numbers 0..n-1."""
    have = _chain_cache.setdefault(root_hex, ([], []))
    while len(have[0]) < n:
        s = chain_secret(root_hex, len(have[0]))
        have[0].append(s)
        have[1].append(commit_point(s))
    return have


# ---- resolve + predicate ----------------------------------------------------------------------
SLOT_COQ = {"open": "SOpen", "channel_ready": "SReady", "reestablish": "SReestablish"}
OTHER = {"a": "b", "b": "a"}


def resolve(row):
    """adds sidx / pidx (chain index or NOT_ON_CHAIN) to every event; returns #resolutions"""
    evs = row["events"]
    need = 6 + max([e.get("disk_h", 0) for e in evs] + [0]) + \
        sum(1 for e in evs if e["slot"] == "revoke_and_ack")
    tabs = {}
    for p, root in zip("ab", row["roots"]):
        if len(root) != 64:
            tabs[p] = ({}, {}, [])
            continue
        secs, pts = chain(root, need)
        tabs[p] = ({s: i for i, s in enumerate(secs[:need])}, {q: i for i, q in enumerate(pts[:need])},
                   secs)
    n = 0
    for e in evs:
        sec_t, pt_t, _ = tabs[e["party"]]
        if e.get("point"):
            e["pidx"] = pt_t.get(e["point"], NOT_ON_CHAIN)
            n += 1
        if e.get("secret"):
            e["sidx"] = sec_t.get(e["secret"], NOT_ON_CHAIN)
            n += 1
    row["_peer_secrets"] = {p: tabs[p][2] for p in "ab"}
    return n


def _ix(i):
    return "none of the chain" if i in (None, NOT_ON_CHAIN) else "#%d" % i


def predicate(row):
    """failures (strings) of one history; python only.  n[p] = number of fresh revoke_and_ack of p
    so far = the height of p's unrevoked commitment."""
    fails = []
    if row.get("abort"):
        fails.append("history aborted: the real code failed: %s" % row["abort"])
    n = {"a": 0, "b": 0}
    ready = {"a": False, "b": False}
    last_rev = {"a": None, "b": None}
    handed = {"a": set(), "b": set()}        # point indices handed out so far
    for k, e in enumerate(row["events"]):
        p, slot = e["party"], e["slot"]
        tag = "event %d (step %s) %s %s/%s at height %d" % (k, e.get("step"), p, slot, e["src"], n[p])
        if e.get("err"):
            fails.append("%s: building the message failed: %s" % (tag, e["err"]))
            continue
        pidx, sidx = e.get("pidx"), e.get("sidx")
        if slot == "open":
            if pidx != 0:
                fails.append("%s: first_per_commitment_point is %s of the sender's chain, must be #0"
                             % (tag, _ix(pidx)))
        elif slot == "channel_ready":
            if pidx != 1:
                fails.append("%s: next_per_commitment_point is %s of the sender's chain, channel_ready "
                             "must carry #1 whenever it is (re-)sent" % (tag, _ix(pidx)))
            ready[p] = True
        elif slot == "revoke_and_ack" and e["src"] == "fresh":
            if sidx != n[p] or pidx != n[p] + 2:
                fails.append("%s: revoke_and_ack carries secret %s / next point %s, the chain requires "
                             "#%d / #%d" % (tag, _ix(sidx), _ix(pidx), n[p], n[p] + 2))
            if pidx in handed[p]:
                fails.append("%s: next point %s was handed out before (repeat)" % (tag, _ix(pidx)))
            last_rev[p] = (e.get("secret"), e.get("point"))
            n[p] += 1
            if e.get("disk_h") != n[p]:
                fails.append("%s: secret #%d released while the database holds local height %s"
                             % (tag, n[p] - 1, e.get("disk_h")))
        elif slot == "revoke_and_ack":
            if n[p] == 0:
                fails.append("%s: a revoke_and_ack is retransmitted although none was ever sent" % tag)
            elif (e.get("secret"), e.get("point")) != last_rev[p] or sidx != n[p] - 1 or pidx != n[p] + 1:
                fails.append("%s: retransmitted revoke_and_ack carries secret %s / point %s, the last one "
                             "sent was #%d / #%d" % (tag, _ix(sidx), _ix(pidx), n[p] - 1, n[p] + 1))
        elif slot == "reestablish":
            if pidx != n[p]:
                fails.append("%s: my_current_per_commitment_point is %s, the unrevoked commitment is #%d"
                             % (tag, _ix(pidx), n[p]))
            if e.get("next_local") != n[p] + 1:
                fails.append("%s: next_commitment_number %s" % (tag, e.get("next_local")))
            rt = e.get("remote_tail") or 0
            want = "00" * 32
            if rt > 0:
                ps = row["_peer_secrets"][OTHER[p]]
                want = ps[rt - 1] if rt - 1 < len(ps) else None
                if rt > n[OTHER[p]]:
                    fails.append("%s: claims the peer revoked %d commitments, it revoked %d"
                                 % (tag, rt, n[OTHER[p]]))
            if want is not None and e.get("peer_secret") != want:
                fails.append("%s: your_last_per_commitment_secret is not secret #%d of the peer's chain"
                             % (tag, rt - 1))
        else:
            fails.append("%s: unknown slot" % tag)
        if pidx is not None and pidx != NOT_ON_CHAIN:
            lim = n[p] + 2 if ready[p] else 1
            if pidx >= lim:
                fails.append("%s: point #%d is beyond the frontier #%d of what may have been handed out"
                             % (tag, pidx, lim - 1))
            handed[p].add(pidx)
    if "want_ready" in row and row["want_ready"] != row.get("got_ready"):
        fails.append("connect (%s): %s channel_ready queued, %s expected"
                     % (row.get("kind"), row.get("got_ready"), row["want_ready"]))
    return fails


def case_terms(row):
    """one Coq case per party: (has_open, [(slot, (secret idx option, point idx))])"""
    out = []
    for p in "ab":
        evs = [e for e in row["events"] if e["party"] == p and not e.get("err")]
        if not evs:
            continue
        items = []
        for e in evs:
            if e["slot"] == "revoke_and_ack":
                sl = "SRevoke" if e["src"] == "fresh" else "SRetransmit"
            else:
                sl = SLOT_COQ[e["slot"]]
            s = e.get("sidx")
            items.append("(%s, (%s, %d%%N))" % (sl, "@None N" if s is None else "Some %d%%N" % s,
                                              e.get("pidx", NOT_ON_CHAIN)))
        has_open = any(e["slot"] == "open" for e in evs)
        out.append(((row["stage"], row["case"], p, evs),
                    "(%s, [%s])" % ("true" if has_open else "false", "; ".join(items))))
    return out


def _slim(row, bad_events):
    """row for the replay file: ops + the failing events and their neighbours"""
    keep = set()
    for k in bad_events:
        keep.update(range(max(0, k - 2), k + 3))
    r = {k: v for k, v in row.items() if k not in ("events", "_peer_secrets")}
    r["events"] = [dict(e, k=i) for i, e in enumerate(row["events"]) if i in keep][:40]
    r["n_events"] = len(row["events"])
    return r


def _run_one(h, uid, env):
    # The funding flows wait for goroutines of the real funding managers with lnd's own test
    # time-outs (5-15 s): on a heavily loaded machine a wait can expire although nothing is wrong.
    # A harness that exits non-zero is therefore run a second time; only a failure that repeats is
    # reported (a change that really breaks the flow fails every time).
    for attempt in (1, 2):
        rc, trace, out = run_harness(uid + h["stage"], h["pkg"], h["files"], h["test"], env=env,
                                     timeout=1500)
        rows = read_jsonl(trace)
        if rc == 0 and rows:
            break
        h = dict(h, retried=True)
    try:
        os.remove(trace)
    except OSError:
        pass
    shutil.rmtree(os.path.join(_v.BUILD, "overlay", uid + h["stage"]), ignore_errors=True)
    return h, rc, rows, out


def run_stage(ctx):
    from concurrent.futures import ThreadPoolExecutor
    t0 = time.time()
    cov, viol = {}, []
    uid = ctx.uid("_ptp%d" % os.getpid())
    env = {"VERIF_SEED": str(ctx.seed), "VERIF_TIER": ctx.tier}
    todo = HARNESSES
    if ctx.replay:
        import json as _json
        try:
            rep = _json.load(open(ctx.replay))
        except (OSError, ValueError):
            rep = {}
        d = rep.get("detail") or {}
        if "c06 points" in (rep.get("signature") or "") and d.get("points_case") is not None:
            env.update({"VERIF_SEED": str(d.get("seed", ctx.seed)),
                        "VERIF_FIRST_CASE": str(d["points_case"]), "VERIF_CASES": "1"})
            todo = [h for h in HARNESSES if h["stage"] == d.get("stage")]
    with ThreadPoolExecutor(max_workers=len(todo) or 1) as ex:
        results = list(ex.map(lambda h: _run_one(h, uid, env), todo))
    rows = []
    retried = [h["stage"] for h, _, _, _ in results if h.get("retried")]
    for h, rc, rws, out in results:
        if rc != 0 or not rws:
            viol.append(dict(kind="harness_failed", name=h["test"], detail={"rc": rc, "log": out[-4000:]},
                             signature="points-harness %s" % h["stage"], failing_input=False))
        rows += rws
    t1 = time.time()
    nres = sum(resolve(r) for r in rows)
    hist = {"rows": {}, "kinds": {}, "chan_type": {}, "events(slot/src)": {}, "aborted": {},
            "channel_ready_by_sender_height": {}, "reestablish_by_sender_height": {},
            "revoke_and_ack_by_index": {}, "ops": {}}

    def bump(d, k, by=1):
        d[k] = d.get(k, 0) + by

    def hb(x):
        return str(x) if x < 4 else ("4-7" if x < 8 else "8+")

    nbad = 0
    nrep = {}
    for r in rows:
        bump(hist["rows"], r["stage"])
        bump(hist["kinds"], "%s/%s" % (r["stage"], r["kind"]))
        bump(hist["chan_type"], r["chan_type"])
        if r.get("abort"):
            bump(hist["aborted"], r["abort"][:60])
        for o in r.get("ops", []):
            bump(hist["ops"], " ".join(o.split(" ")[:2]) if not o.startswith("connect") else o)
        for e in r["events"]:
            bump(hist["events(slot/src)"], "%s/%s/%s" % (r["stage"], e["slot"], e["src"]))
            if e["slot"] == "channel_ready":
                bump(hist["channel_ready_by_sender_height"], hb(e.get("disk_h", 0)))
            elif e["slot"] == "reestablish":
                bump(hist["reestablish_by_sender_height"], hb(e.get("disk_h", 0)))
            elif e.get("sidx") not in (None, NOT_ON_CHAIN):
                bump(hist["revoke_and_ack_by_index"], hb(e["sidx"]))
        fails = predicate(r)
        if not fails:
            continue
        nbad += 1
        if nrep.get(r["stage"], 0) < 2:
            nrep[r["stage"]] = nrep.get(r["stage"], 0) + 1
            bad_ev = [int(f.split(" ")[1]) for f in fails if f.startswith("event ")]
            viol.append(dict(
                kind="impl_violates_predicate",
                name="C06 own chain: every slot carries the index of the sender's derivation chain it "
                     "must (C06_slot_index / C06_own_points_no_gap / C06_own_secrets_no_gap)",
                detail={"stage": r["stage"], "points_case": r["case"], "seed": r.get("seed"),
                        "chan_type": r["chan_type"], "kind": r["kind"], "fails": fails[:8],
                        "n_fails": len(fails), "history": _slim(r, bad_ev[:4]),
                        "replay": "VERIF_SEED=%s VERIF_FIRST_CASE=%s VERIF_CASES=1 (%s)"
                                  % (r.get("seed"), r["case"],
                                     [h["test"] for h in HARNESSES if h["stage"] == r["stage"]][0])},
                signature="c06 points %s %s" % (r["stage"], fails[0].split(": ", 1)[-1][:140]),
                failing_input=True))
    t2 = time.time()
    # ---- correspondence with the Coq slot model ----------------------------------------------
    keyed = []
    for r in rows:
        keyed += case_terms(r)
    mism = 0
    if keyed:
        ok, bad, logs = coq_mismatches(uid + "pts", IMPORTS, [t for _, t in keyed],
                                       shard=max(4, len(keyed) // (2 * _v.NCPU) + 1), timeout=1500)
        if not ok:
            viol.append(dict(kind="correspondence_mismatch", name="Shachain.SlotExec (model evaluation failed)",
                             detail={"logs": logs}, signature="points-model-eval", failing_input=False))
        mism = len(bad)
        seen_st = {}
        for ci, evidx in bad:
            if seen_st.get(keyed[ci][0][0], 0) >= 1:
                continue
            seen_st[keyed[ci][0][0]] = 1
            (stage, case, party, evs), _ = keyed[ci]
            viol.append(dict(
                kind="correspondence_mismatch", name="Shachain.SlotExec.check_case",
                detail={"stage": stage, "points_case": case, "party": party, "seed": ctx.seed,
                        "disagreeing_events": [{k: v for k, v in evs[i].items()} for i in evidx[:5]],
                        "event_indices": evidx[:50]},
                signature="c06 points %s model mismatch" % stage, failing_input=True))
        import glob as _glob
        for p in _glob.glob(os.path.join(_v.BUILD, "coq_eval", "*cases_%spts*" % uid)):
            try:
                os.remove(p)
            except OSError:
                pass
    cov.update({
        "ok": nbad == 0 and mism == 0 and not viol,
        "histories": len(rows), "events_checked": sum(len(r["events"]) for r in rows),
        "values_resolved_against_recomputed_chain": nres,
        "model_cases(one per party and history)": len(keyed),
        "failing_histories": nbad, "correspondence_mismatches": mism,
        "harness_runs_repeated_after_nonzero_exit": retried,
        "rule": "lnwallet: 5 systematic schedules (restart after every single step of 3-4 dances, one per "
                "channel type) + seeded random interleavings of sign/deliver/revoke/restart; after EVERY "
                "step both parties are probed as if the peer connected now (SecondCommitmentPoint on a "
                "database instance and on the live state, ChanSyncMsg); peer: loadActiveChannels with "
                "option-scid-alias freshly negotiated at all (own, peer) heights in {0..3}x{0,1} + random "
                "histories up to 50 half-dances, negative variants (feature already set / not negotiated); "
                "funding: 4 complete funding flows between two real funding managers (default, anchors, "
                "channel_ready re-sent after a funding-manager restart, zero-conf + scid-alias with the "
                "alias-less processChannelReady re-send), every open/accept/channel_ready tapped at the "
                "transport",
        "histograms": hist,
        "harness_s": round(t1 - t0, 1), "predicate_s": round(t2 - t1, 1),
        "model_s": round(time.time() - t2, 1), "wall_s": round(time.time() - t0, 1)})
    return cov, viol
