"""C17 — RBF cooperative close state machine: Coq terms for Coop/RbfExec.v and the
property predicates evaluated on the implementation's own trace (no model)."""
from lib.verif import cbool, copt, cnat

ANCHOR = 330
MAX_RBF_SEQ = 0xfffffffd

IMPORTS = ("From Coq Require Import List ZArith NArith Bool.\nImport ListNotations.\n"
           "From LV Require Import Coop.Model Coop.RbfModel Coop.RbfExec.\n")


# ---------------------------------------------------------------- Coq terms

def zs(hexstr):
    return "[" + ";".join(str(x) for x in bytes.fromhex(hexstr)) + "]"


def cz(n):
    n = int(n)
    return "(%d)" % n if n < 0 else str(n)


def cdesc(d):
    outs = "[" + "; ".join("(%s, %s)" % (cz(v), zs(s)) for v, s in d["outs"]) + "]"
    return "(mkDesc %s %s %s %s)" % (cz(d["ver"]), cz(d["seq"]), cz(d["lt"]), outs)


def cmsg(m):
    s = m["sigs"]
    sigs = "(mkSigs %s %s %s)" % (copt(s["cnc"], cdesc), copt(s["ncc"], cdesc), copt(s["cac"], cdesc))
    return "(mkCMsg %s %s %s %s %s)" % (zs(m["closer"]), zs(m["closee"]), cz(m["fee"]), cz(m["lt"]), sigs)


def cevent(e):
    k = e["e"]
    if k == "SendShutdown":
        return "(ESendShutdown %s %s)" % (copt(e["addr"], zs), cz(e["rate"]))
    if k == "ShutdownReceived":
        return "(EShutdownReceived %s %s %s)" % (zs(e["scr"]), cz(e["h"]), cbool(e["valid"]))
    if k == "ShutdownComplete":
        return "EShutdownComplete"
    if k == "ChannelFlushed":
        return "(EChannelFlushed %s %s)" % (cz(e["l"]), cz(e["r"]))
    if k == "SendOffer":
        return "(ESendOffer %s)" % cz(e["rate"])
    if k == "OfferReceived":
        return "(EOfferReceived %s %s)" % (cmsg(e["m"]), cbool(e["valid"]))
    if k == "LocalSigReceived":
        return "(ELocalSigReceived %s)" % cmsg(e["m"])
    if k == "Spend":
        return "ESpend"
    raise ValueError(k)


ERR = {1: "XInvalid", 2: "XThaw", 3: "XScript", 4: "XUpfront", 5: "XWrongScript",
       6: "XCannotPay", 7: "XNoSig", 8: "XCloserNoClosee", 9: "XCloserAndClosee",
       10: "XTooManySigs", 12: "XComplete", 13: "XFuel"}
PERR = {1: "ErrClosing", 2: "ErrAfford", 3: "ErrSanity"}


def cearly(x):
    return copt(x, lambda e: "(%s, %s)" % (cmsg(e["m"]), cbool(e["valid"])))


def cstate(s):
    k = s["s"]
    if k == "Active":
        return "SActive"
    if k in ("ShutdownPending", "Flushing"):
        return "(S%s %s %s %s %s)" % (k, copt(s["ideal"], cz), zs(s["ls"]), zs(s["rs"]), cearly(s["early"]))
    if k == "Negotiation":
        t = s["t"]
        terms = "(mkTerms %s %s %s %s)" % (zs(t["ls"]), zs(t["rs"]), cz(t["lb"]), cz(t["rb"]))
        l = s["l"]
        if l["k"] == "Bad" or s["r"]["k"] == "Bad":
            return "(SDead XFuel)"   # a state shape the model does not have: always a mismatch
        ls = {"Start": "LStart", "Err": "LErr"}.get(l["k"])
        if l["k"] == "OfferSent":
            ls = "(LOfferSent %s %s)" % (cz(l["fee"]), cdesc(l["d"]))
        elif l["k"] == "Pending":
            ls = "(LPending %s)" % cdesc(l["d"])
        r = s["r"]
        rs = "RStart" if r["k"] == "Start" else "(RPending %s)" % cdesc(r["d"])
        return "(SNegotiation %s %s %s)" % (terms, ls, rs)
    if k == "Fin":
        return "SFin"
    if k == "Dead":
        if s["err"] == 11:
            # an unknown sub-class maps to a constructor the model never produces
            return "(SDead (XProposal %s))" % PERR.get(s["perr"], "ErrClosing")
        return "(SDead %s)" % ERR.get(s["err"], "XFuel")
    raise ValueError(k)


def coutput(o):
    k = o["o"]
    if k == "Shutdown":
        return "(OShutdown %s)" % zs(o["scr"])
    if k == "MarkShutdown":
        return "(OMarkShutdown %s %s)" % (zs(o["scr"]), cbool(o["ini"]))
    if k == "Post":
        return "(OPost %s)" % cevent(o["ev"])
    if k == "ClosingComplete":
        return "(OClosingComplete %s)" % cmsg(o["m"])
    if k == "ClosingSig":
        return "(OClosingSig %s)" % cmsg(o["m"])
    if k == "MarkCoop":
        return "(OMarkCoop %s %s)" % (cdesc(o["d"]), cbool(o["local"]))
    if k == "Broadcast":
        return "(OBroadcast %s)" % cdesc(o["d"])
    raise ValueError(k)


def cview(v):
    return "(mkView %s %s %s %s %s %s %s %s %s)" % (
        cbool(v["an"]), cbool(v["tap"]), cbool(v["ini"]), cz(v["lm"]), cz(v["rm"]),
        cz(v["cf"]), cz(v["ld"]), cz(v["rd"]), cbool(v["closed"]))


def cenv(e):
    fin = copt(e["final"], lambda f: "(%s, %s)" % (cz(f[0]), cz(f[1])))
    return "(mkEnv %s %s %s %s %s %s %s %s)" % (
        cview(e["view"]), cz(e["height"]), cz(e["rate"]), copt(e["thaw"], cz),
        copt(e["lup"], zs), copt(e["rup"], zs), zs(e["new"]), fin)


def node_term(n):
    steps = "[" + ";\n ".join(
        "mkStep %s %s [%s]" % (cevent(s["ev"]), cstate(s["st"]), "; ".join(coutput(o) for o in s["outs"]))
        for s in n["steps"]) + "]"
    return "CRun %s %s" % (cenv(n["env"]), steps)


def row_terms(c):
    k = c["k"]
    if k == "rdust":
        return [("rdust", "CRDust %s %s" % (cz(c["n"]), cz(c["res"])))]
    if k == "ropret":
        return [("ropret", "CROpret %s %s" % (zs(c["s"]), cbool(c["res"])))]
    if k == "rest":
        return [("rest", "CREst %s %s %s %s %s" % (
            cbool(c["tap"]), copt(c["lo"], zs), copt(c["ro"], zs), cz(c["rate"]), cz(c["res"])))]
    if k == "rbf":
        return [("A", node_term(c["A"])), ("B", node_term(c["B"]))]
    raise ValueError(k)


# ---------------------------------------------------------------- predicates

def dust_for_size(n):
    return {22: 294, 34: 330, 23: 540, 25: 546}.get(n, 354)


def expected_outs(view, fee, closer_is_local, own_script, other_script):
    """The close tx of the RBF flow for one party's view, as the property states
    it: each side gets its commitment balance (opener: + commit fee + anchors),
    the CLOSER pays the fee, an output is dropped below its owner's channel dust
    limit.  None = no valid transaction (payer cannot afford / nothing left)."""
    credit = view["cf"] + (2 * ANCHOR if view["an"] else 0)
    own = view["lm"] // 1000 + (credit if view["ini"] else 0)
    oth = view["rm"] // 1000 + (0 if view["ini"] else credit)
    if closer_is_local:
        own -= fee
    else:
        oth -= fee
    if own < 0 or oth < 0:
        return None
    outs = []
    # (an OP_RETURN delivery script burns its owner's funds: value 0, BOLT 2)
    if own >= view["ld"]:
        outs.append((0 if own_script.startswith("6a") else own, own_script))
    if oth >= view["rd"]:
        outs.append((0 if other_script.startswith("6a") else oth, other_script))
    return sorted(outs, key=lambda o: (o[0], bytes.fromhex(o[1]))) or None


def one_field(sigs):
    set_ = [k for k in ("cnc", "ncc", "cac") if sigs[k] is not None]
    return set_[0] if len(set_) == 1 else None


def rbf_predicate(c):
    """Returns list of (theorem, message).  Honest = no tampering, no hasty user
    event, Environment.BlockHeight as in peer/brontide.go (0)."""
    f = []
    A, B = c["A"], c["B"]
    nodes = {"A": A, "B": B}
    other = {"A": "B", "B": "A"}
    cap = c["capacity"]
    honest = not c["tampered"] and not c["hasty"] and c["envHeight"] == 0

    if c["fundingValue"] != cap:
        f.append(("C17_rbf_agree", "funding output value != capacity"))
    va, vb = A["env"]["view"], B["env"]["view"]
    if (va["lm"], va["rm"], va["cf"], va["ld"], va["rd"], va["an"], va["tap"]) != \
            (vb["rm"], vb["lm"], vb["cf"], vb["rd"], vb["ld"], vb["an"], vb["tap"]) or va["ini"] == vb["ini"]:
        f.append(("C17_rbf_agree", "views not mirrored"))

    # every transaction handed to the broadcaster is valid against the funding output
    for nm, n in nodes.items():
        for b in n["bcast"]:
            if not b["engine"]:
                f.append(("C17_rbf_agree", "%s broadcast a transaction the script engine rejects" % nm))

    # walk each node's history
    for nm, n in nodes.items():
        peer = nodes[other[nm]]
        view = n["env"]["view"]
        for i, st in enumerate(n["steps"]):
            s = st["st"]
            for o in st["outs"]:
                if o["o"] == "ClosingComplete":
                    m = o["m"]
                    fld = one_field(m["sigs"])
                    if fld is None:
                        f.append(("C17_rbf_agree", "%s sent closing_complete with %s" % (nm, m["sigs"])))
                        continue
                    d = m["sigs"][fld]
                    # closer pays, exact balances
                    exp = expected_outs(view, m["fee"], True, m["closer"], m["closee"])
                    got = [tuple(x) for x in d["outs"]]
                    if exp is None or got != exp:
                        f.append(("C17_rbf_agree", "%s offer fee %d signs outputs %s, expected %s (closer pays)"
                                  % (nm, m["fee"], got, exp)))
                    if d["seq"] != MAX_RBF_SEQ or d["ver"] != 2:
                        f.append(("C17_rbf_agree", "%s offer sequence/version %s/%s" % (nm, d["seq"], d["ver"])))
                    tot = sum(v for v, _ in got)
                    if tot + m["fee"] > cap:
                        f.append(("C17_rbf_agree", "%s offer: outputs %d + fee %d > capacity %d"
                                  % (nm, tot, m["fee"], cap)))
                    burnt = m["closer"].startswith("6a") or m["closee"].startswith("6a")
                    if len(got) == 2 and not burnt and cap - tot - m["fee"] not in (0, 1):
                        f.append(("C17_rbf_agree", "%s offer: %d sat unaccounted" % (nm, cap - tot - m["fee"])))
                    # the closer never offers a fee above its own commitment balance
                    if m["fee"] > view["lm"] // 1000:
                        f.append(("C17_rbf_agree", "%s offered fee %d above its balance" % (nm, m["fee"])))
                    # which field: the rule the state machine implements
                    closee_sat = view["rm"] // 1000
                    closer_after = view["lm"] // 1000 - m["fee"] + (
                        (view["cf"] + (2 * ANCHOR if view["an"] else 0)) if view["ini"] else 0)
                    if closee_sat < dust_for_size(len(m["closee"]) // 2):
                        want = "cnc"
                    elif closer_after < dust_for_size(len(m["closer"]) // 2):
                        want = "ncc"
                    else:
                        want = "cac"
                    if fld != want:
                        f.append(("C17_rbf_sigfield", "%s sent field %s, rule says %s" % (nm, fld, want)))
                if o["o"] == "ClosingSig":
                    m = o["m"]
                    fld = one_field(m["sigs"])
                    if fld is None:
                        f.append(("C17_rbf_agree", "%s sent closing_sig with %s" % (nm, m["sigs"])))
                        continue
                    d = m["sigs"][fld]
                    # the closee signs the closer-pays transaction of ITS view
                    exp = expected_outs(view, m["fee"], False, m["closee"], m["closer"])
                    got = [tuple(x) for x in d["outs"]]
                    if exp is None or got != exp:
                        f.append(("C17_rbf_agree", "%s countersigned outputs %s, expected %s" % (nm, got, exp)))
                    # ... and only if the closer's balance covers the fee
                    if m["fee"] > view["rm"] // 1000:
                        f.append(("C17_rbf_agree", "%s countersigned fee %d above the closer's balance"
                                  % (nm, m["fee"])))
            # local close completed: the peer broadcast the very same transaction before
            if s["s"] == "Negotiation" and "Bad" in (s["l"]["k"], s["r"]["k"]):
                f.append(("C17_rbf_progress", "%s: peer state of an unexpected shape: %s / %s" % (nm, s["l"], s["r"])))
            if s["s"] == "Negotiation" and s["l"]["k"] == "Pending":
                prev = n["steps"][i - 1]["st"] if i else None
                newly = not (prev and prev["s"] == "Negotiation" and prev["l"] == s["l"])
                if newly:
                    mine = [b for b in n["bcast"] if b["step"] == i + 1 and b["d"] == s["l"]["d"]]
                    if not mine:
                        f.append(("C17_rbf_agree", "%s reached ClosePending without broadcasting its tx" % nm))
                    elif not any(b["full"] == mine[0]["full"] for b in peer["bcast"]):
                        f.append(("C17_rbf_agree", "%s completed a close tx its peer never broadcast "
                                                   "(byte comparison incl. witness)" % nm))

    # progress / no deadlock between two honest machines
    if honest:
        for nm, n in nodes.items():
            peer = nodes[other[nm]]
            last = n["steps"][-1]["st"] if n["steps"] else {"s": "Active"}
            if last["s"] == "Dead":
                ok = False
                # documented honest-run stops: nothing left above dust (sanity), a
                # delivery script the peer refuses, upfront mismatch, thaw height
                if last["err"] == 11 and last["perr"] == 3:
                    ok = True
                if last["err"] in (2, 3, 4):
                    ok = True
                if not ok:
                    f.append(("C17_rbf_progress", "honest run: %s stopped with error %d (%s)"
                              % (nm, last["err"], last.get("msg"))))
            elif not peer["dead"]:
                if n["inbox"] or n["posts"]:
                    f.append(("C17_rbf_progress", "%s has undelivered input at the end" % nm))
                if last["s"] == "Negotiation" and last["l"]["k"] == "OfferSent":
                    f.append(("C17_rbf_progress", "%s's offer was never answered (deadlock)" % nm))
                if last["s"] in ("ShutdownPending", "Flushing") and not c["spend"]:
                    f.append(("C17_rbf_progress", "%s stuck in %s" % (nm, last["s"])))

    # named witnesses
    nm = c["name"]
    if nm == "w_fee_decrease":
        fees = [o["m"]["fee"] for st in A["steps"] for o in st["outs"] if o["o"] == "ClosingComplete"]
        pend = [st["st"]["l"] for st in A["steps"] if st["st"]["s"] == "Negotiation"]
        if not (len(fees) == 3 and fees[0] > fees[1] > fees[2] and pend and pend[-1]["k"] == "Pending"
                and cap - sum(v for v, _ in pend[-1]["d"]["outs"]) == fees[2]):
            f.append(("C17_rbf_fee_not_monotone", "witness: decreasing fees %s no longer all accepted" % fees))
    if nm == "w_field_mismatch":
        ms = [o["m"] for st in A["steps"] for o in st["outs"] if o["o"] == "ClosingComplete"]
        if not (len(ms) == 1 and one_field(ms[0]["sigs"]) == "cac" and len(ms[0]["sigs"]["cac"]["outs"]) == 1):
            f.append(("C17_rbf_sigfield_mismatch_refuted",
                      "witness: closer_and_closee over a one-output tx no longer reproduced: %s" % ms))
    if nm == "w_locktime":
        # whichever offer is delivered first is rejected by the honest closee
        lasts = [n["steps"][-1]["st"] for n in (A, B) if n["steps"]]
        rejected = any(l["s"] == "Dead" and l["err"] == 12 for l in lasts)
        completed = any(st["st"]["s"] == "Negotiation" and st["st"]["l"]["k"] == "Pending"
                        for n in (A, B) for st in n["steps"])
        if not rejected or completed:
            f.append(("C17_rbf_locktime_refuted",
                      "witness: BlockHeight 7 no longer makes the closee reject the offer: %s" % lasts))
    return f


# ====================================================================
# legacy flow: ENTRY orderings (Coop/EntryModel.v, EntryExec.v)

ENTRY_IMPORTS = ("From Coq Require Import List ZArith NArith Bool.\nImport ListNotations.\n"
                 "From LV Require Import Coop.Model Coop.EntryModel Coop.EntryInst Coop.EntryExec.\n")


def centry_event(e):
    k = e["e"]
    if k == "ShutdownChan":
        return "CShutdownChan"
    if k == "ReceiveShutdown":
        return "CReceiveShutdown"
    if k == "BeginNegotiation":
        return "CBeginNegotiation"
    if k == "ReceiveCs":
        return "(CReceiveCs %s)" % cz(e["fee"])
    raise ValueError(k)


def centry_calls(calls):
    items = []
    for c in calls:
        obs = "(mkObs %s %s %s %s [%s] [%s])" % (
            cz(c["err"]), cz(c["phase"]), copt(c["cache"], cz), cz(c["last"]),
            "; ".join(cz(x) for x in c["prior"]), "; ".join(cz(x) for x in c["outs"]))
        items.append("(%s, %s)" % (centry_event(c["ev"]), obs))
    return "[" + ";\n ".join(items) + "]"


def entry_terms(c):
    if c["k"] != "entry":
        return []
    # vIdentityEstimator: cfg.MaxFee 0 -> default cap 3x ideal
    return [("O", "CEntry true %s %s 0 %s %s" % (cbool(c["tap"]), cz(c["io"]), cz(c["afford"]),
                                                centry_calls(c["callsO"]))),
            ("R", "CEntry false %s %s 0 %s %s" % (cbool(c["tap"]), cz(c["ir"]), cz(c["afford"]),
                                                 centry_calls(c["callsR"])))]


def entry_pow_bound(lo, hi):
    n, a, b = 0, 100 * hi, 129 * lo
    while a > b:
        a *= 1000
        b *= 1091
        n += 1
    return n


def entry_predicate(c):
    """Honest orderings (no duplicated message): whatever the interleaving of the
    entry events, both sides end with the byte-identical fully signed tx at a fee
    both signed for within the proved number of messages; no honest message is
    dropped or rejected."""
    f = []
    if c["dup"]:
        return f
    th = "C17_entry_terminates"
    order = " ".join(c["order"])
    if c["stuck"]:
        f.append((th, "ordering %s could not be executed: %s" % (order, c["stuck"])))
    lo, hi = min(c["io"], c["ir"]), max(c["io"], c["ir"])
    realistic = lo >= 100 and hi <= c["maxO"] and hi <= c["afford"]
    errs = [(nm, call) for nm in ("O", "R") for call in c["calls" + nm] if call["err"] != 0]
    # the entry calls never fail between honest nodes; a negotiation call may only
    # fail outside the hypotheses of the theorem (fee above the opener's cap)
    for nm, call in errs:
        if call["ev"]["e"] != "ReceiveCs" or realistic or c["tap"]:
            f.append((th, "ordering [%s]: %s's %s failed: %s" % (order, nm, call["ev"]["e"], call["msg"])))
    if errs:
        return f
    if c["inflight"] or c["sent"] != c["delivered"]:
        f.append((th, "ordering [%s]: %d message(s) left undelivered" % (order, c["inflight"])))
    if not (c["finO"] and c["finR"]):
        if realistic or c["tap"]:
            f.append((th, "ordering [%s]: negotiation did not finish (states %d/%d): an honest "
                          "closing_signed was swallowed" % (order, c["stateO"], c["stateR"])))
        return f
    if not c["txO"] or c["txO"] != c["txR"]:
        f.append((th, "ordering [%s]: closing transactions differ or missing" % order))
    if not c["engine"]:
        f.append((th, "ordering [%s]: script engine rejects the closing tx" % order))
    if c.get("nOuts") == 2:
        fee = c["txFee"]
        if fee not in c["priorO"] or fee not in c["priorR"]:
            f.append((th, "ordering [%s]: tx fee %d not signed for by both" % (order, fee)))
        if not c["tap"] and not lo <= fee <= hi:
            f.append((th, "ordering [%s]: fee %d outside [%d,%d]" % (order, fee, lo, hi)))
    if c["nBroadcastO"] != 1 or c["nBroadcastR"] != 1:
        f.append((th, "ordering [%s]: broadcast count %d/%d" % (order, c["nBroadcastO"], c["nBroadcastR"])))
    ncs = sum(1 for nm in ("O", "R") for call in c["calls" + nm]
              if call["ev"]["e"] == "ReceiveCs" and call["phase"] >= 3)
    if realistic and not c["tap"] and ncs > entry_pow_bound(lo, hi) + 4:
        f.append((th, "ordering [%s]: %d closing_signed processed > bound %d"
                  % (order, ncs, entry_pow_bound(lo, hi) + 4)))
    return f
