"""C09 — an HTLC is forwarded only if it meets the advertised policy and loses no money."""
import hashlib
import json
import os
import shutil

from lib.verif import *
from props import c09_paths, c09_prov

THEOREMS = [
    "C09_sound", "C09_complete", "C09_failure_names_violated_rule",
    "C09_machine_eq_spec", "C09_wrap_refuted_outside",
    "C09_fee_wrap_refuted_outside", "C09_transit_sound_complete",
    "C09_switch_picks_only_ok",
]
MODULE = "LV.Policy.Props"
TARGETS = ["theories/Policy/Props.vo", "theories/Policy/Exec.vo",
           "theories/Policy/Examples.vo", "theories/Policy/GenBridge.vo"]
HARNESS = ["htlcswitch/verif_policy_test.go", "htlcswitch/verif_policy_paths_test.go"]
# keys of a path row (c09_paths) that are observations, not inputs
PATH_OBS = ("pkgs", "calls", "settled", "forwarded", "alice_ok", "alice_err", "alice_arg", "fired", "note",
            "wall_ms", "out_scid", "chanbw")
PROV_PKG = "routing/localchans"
PROV_HARNESS = ["localchans/verif_policy_prov_test.go"]
PROV_OBS = ("prov", "step", "chan", "in_chan", "probe", "passed_ibase", "passed_irate", "replay_scenario")
PEER_HARNESS = ["peer/verif_linkpolicy_test.go"]
WARM = [{"pkg": "htlcswitch", "files": HARNESS}, {"pkg": PROV_PKG, "files": PROV_HARNESS},
        {"pkg": "peer", "files": PEER_HARNESS}]
IMPORTS = ("From Coq Require Import List ZArith NArith.\nImport ListNotations.\n"
           "From LV Require Import Policy.Model Policy.Exec.\n"
           # lib.coq_mismatches parses `(i%N, [..])` with a regex that does not survive
           # Coq's line wrapping ("( 16%N, ..."): print on one line.
           "Set Printing Width 1000000.\n")

WIRE = ["nil", "FeeInsufficient", "AmountBelowMinimum", "TemporaryChannelFailure",
        "ExpiryTooSoon", "ExpiryTooFar", "IncorrectCltvExpiry", "TemporaryNodeFailure",
        "OTHER"]
DETAIL = {0: "", 1: "/ExceedsMax", 2: "/InsufficientBalance", 9: "/OTHER"}
T31, T32, T63, T64 = 2 ** 31, 2 ** 32, 2 ** 63, 2 ** 64
MAX_AMT = 2 ** 42


def zt(n):
    n = int(n)
    return str(n) if n >= 0 else "(%d)" % n


def case_term(c):
    return "C %s %s %s %s %s %s %s %s" % (
        cbool(c["kind"] == "transit"),
        " ".join(zt(c[k]) for k in ("min", "max", "base", "rate", "delta", "rej", "maxcltv", "chanbw")),
        " ".join(zt(c[k]) for k in ("aux", "auxbw")),
        cbool(c["custom"]), cbool(c["updok"]),
        " ".join(zt(c[k]) for k in ("in", "out", "inexp", "outexp", "ibase", "irate", "height")),
        " ".join(zt(c[k]) for k in ("code", "detail", "arg")),
        "")


# ---------------------------------------------------------------------------
# Volume path: the Coq model extracted to OCaml (ExtrOcamlBasic only; Z and
# positive stay the extracted Coq datatypes), driver ocaml/c09_driver.ml.

EXTRACT_V = ("Require Extraction.\nRequire Import ExtrOcamlBasic.\n"
             "From LV Require Import Policy.Model Policy.Exec.\n"
             'Extraction "policy_model.ml" C verdict.\n')


def build_ocaml_model():
    """Extract + compile (cached on the hash of the .vo inputs and driver).
    Returns (exe or None, log)."""
    drv = os.path.join(ROOT, "ocaml", "c09_driver.ml")
    hsh = hashlib.sha1()
    for f in (os.path.join(THEORIES, "Policy", "Model.v"), os.path.join(THEORIES, "Policy", "Exec.v"), drv):
        hsh.update(open(f, "rb").read())
    d = os.path.join(BUILD, "c09_ocaml", hsh.hexdigest()[:16])
    exe = os.path.join(d, "c09_model")
    with Lock("c09_ocaml"):
        if os.path.exists(exe):
            return exe, "cached"
        shutil.rmtree(os.path.join(BUILD, "c09_ocaml"), ignore_errors=True)
        os.makedirs(d)
        with open(os.path.join(d, "extract.v"), "w") as f:
            f.write(EXTRACT_V)
        rc, out = sh(["coqc", "-Q", THEORIES, "LV", "-w", "none", "extract.v"], cwd=d, timeout=600)
        if rc != 0:
            return None, "extraction failed:\n" + out
        shutil.copy(drv, d)
        rc, out2 = sh(["ocamlfind", "ocamlopt", "-w", "-a", "policy_model.mli", "policy_model.ml",
                       "c09_driver.ml", "-o", "c09_model.tmp"], cwd=d, timeout=600)
        if rc != 0:
            return None, "ocamlopt failed:\n" + out2
        os.rename(os.path.join(d, "c09_model.tmp"), exe)
        return exe, out + out2


def btok(n):
    n = int(n)
    if n == 0:
        return "0"
    return ("-" if n < 0 else "") + bin(abs(n))[2:]


def case_line(c):
    t = ["1" if c["kind"] == "transit" else "0"]
    t += [btok(c[k]) for k in ("min", "max", "base", "rate", "delta", "rej", "maxcltv", "chanbw", "aux", "auxbw")]
    t += ["1" if c["custom"] else "0", "1" if c["updok"] else "0"]
    t += [btok(c[k]) for k in ("in", "out", "inexp", "outexp", "ibase", "irate", "height", "code", "detail", "arg")]
    return " ".join(t)


def ocaml_verdicts(exe, rows):
    """Returns list of (agree, machine_eq_spec_in_D) or None on failure."""
    from concurrent.futures import ThreadPoolExecutor
    nsh = max(1, min(NCPU, len(rows) // 20000))
    step = (len(rows) + nsh - 1) // nsh
    chunks = [rows[i:i + step] for i in range(0, len(rows), step)]

    def one(chunk):
        rc, out = sh([exe], stdin="\n".join(case_line(c) for c in chunk) + "\n", timeout=1500)
        lines = out.split("\n")[:-1] if rc == 0 else []
        if rc != 0 or len(lines) != len(chunk):
            return None, out[-1000:]
        return [(l[0] == "1", l[2] == "1") for l in lines], ""
    res = []
    with ThreadPoolExecutor(max_workers=nsh) as ex:
        for v, err in ex.map(one, chunks):
            if v is None:
                return None, err
            res += v
    return res, ""


# ---------------------------------------------------------------------------
# Property predicate on the implementation's own answers — written from the
# property TEXT with python's unbounded integers, independent of the Coq model.


def in_D(c):
    return (0 <= c["in"] < T63 and 0 <= c["out"] <= MAX_AMT and c["base"] < T32
            and c["rate"] <= 1000000 and -1000000 <= c["irate"] <= 1000000
            and c["height"] < T31 and c["rej"] < T31 and c["maxcltv"] < T31)


def quot(a, b):
    q = abs(a) // abs(b)
    return q if (a >= 0) == (b > 0) else -q


def clauses(c):
    """Truth value of every clause of the property for this case (unbounded)."""
    out, inn = c["out"], c["in"]
    ofee = c["base"] + out * c["rate"] // 1000000
    r = max(-10000000, min(10000000, c["irate"]))
    ifee = c["ibase"] + quot(r * (out + ofee), 1000000)
    shaper = c["aux"] != 0
    custom = shaper and c["custom"]
    bw = c["auxbw"] if c["aux"] == 2 else c["chanbw"]
    cl = {
        "no_loss": out <= inn,
        "fee_covered": inn - out >= ofee + ifee,
        "min": custom or out >= c["min"],
        "max": custom or c["max"] == 0 or out <= c["max"],
        "not_too_soon": c["outexp"] > c["height"] + c["rej"],
        "not_too_far": c["outexp"] <= c["height"] + c["maxcltv"],
        "aux": c["aux"] != 3,
        "bandwidth": out <= bw,
        "delta": c["inexp"] - c["outexp"] >= c["delta"],
        "delta_max": c["inexp"] - c["outexp"] <= c["maxcltv"],
    }
    if c["kind"] == "transit":
        for k in ("no_loss", "fee_covered", "delta", "delta_max"):
            cl[k] = True
    return cl


def boundary_offsets(c):
    """lhs - rhs of every comparison of the decision, for the histogram of how
    often the generator sits exactly on / next to a boundary (measured)."""
    out, inn = c["out"], c["in"]
    ofee = c["base"] + out * c["rate"] // 1000000
    r = max(-10000000, min(10000000, c["irate"]))
    tot = ofee + c["ibase"] + quot(r * (out + ofee), 1000000)
    bw = c["auxbw"] if c["aux"] == 2 else c["chanbw"]
    d = {"out_vs_min": out - c["min"], "out_vs_bw": out - bw,
         "outexp_vs_height+rej": c["outexp"] - (c["height"] + c["rej"]),
         "outexp_vs_height+maxcltv": c["outexp"] - (c["height"] + c["maxcltv"])}
    if c["max"]:
        d["out_vs_max"] = out - c["max"]
    if c["kind"] == "fwd":
        d["in_vs_out"] = inn - out
        d["paid_vs_fee"] = (inn - out) - tot
        d["expdelta_vs_delta"] = (c["inexp"] - c["outexp"]) - c["delta"]
        d["expdelta_vs_maxcltv"] = (c["inexp"] - c["outexp"]) - c["maxcltv"]
        d["height+rej_vs_2^32"] = c["height"] + c["rej"] - T32
        d["height+maxcltv_vs_2^32"] = c["height"] + c["maxcltv"] - T32
        d["out*rate_vs_2^64"] = out * c["rate"] - T64
        d["irate*amt_vs_2^63"] = abs(r * (out + ofee)) - T63
    return d


# failure -> clauses of which at least one must be false
NAMES = {
    (1, 0): ("no_loss", "fee_covered"),
    (2, 0): ("min",),
    (3, 1): ("max",),
    (3, 2): ("bandwidth",),
    (4, 0): ("not_too_soon",),
    (5, 0): ("not_too_far", "delta_max"),
    (6, 0): ("delta",),
}
# when the channel update cannot be fetched the failure degrades to
# TemporaryNodeFailure but keeps its detail
NAMES_NOUPD = {
    (5, 0): ("not_too_far", "delta_max"),   # ExpiryTooFar carries no channel update
    (7, 0): ("no_loss", "fee_covered", "min", "not_too_soon", "delta"),
    (7, 1): ("max",),
    (7, 2): ("bandwidth",),
}
ARG = {1: "out", 2: "out", 6: "inexp"}


def predicate(c):
    """Only cases inside the realistic domain D are judged against the
    unbounded rule (outside D the property itself makes no claim)."""
    fails = []
    if c["code"] == 8 or c["detail"] == 9:
        return ["unexpected failure type %s" % c["name"]]
    if not in_D(c):
        return fails
    cl = clauses(c)
    allok = all(cl.values())
    key = (c["code"], c["detail"])
    if c["code"] == 0:
        bad = [k for k, v in cl.items() if not v]
        if bad:
            fails.append("accepted although clause(s) %s are violated" % ",".join(bad))
        return fails
    if allok:
        fails.append("rejected with %s although every clause holds" % c["name"])
        return fails
    if key == (7, 0) and c["aux"] == 3:
        return fails
    names = NAMES.get(key) if c["updok"] else NAMES_NOUPD.get(key)
    if names is None:
        fails.append("failure %s is not one the property allows here" % c["name"])
    elif all(cl[k] for k in names):
        fails.append("failure %s names rule(s) %s which are NOT violated (violated: %s)" % (
            c["name"], ",".join(names), ",".join(k for k, v in cl.items() if not v)))
    if c["updok"] and c["code"] in ARG and c["arg"] != c[ARG[c["code"]]]:
        fails.append("failure %s carries %d, expected %s=%d" % (
            c["name"], c["arg"], ARG[c["code"]], c[ARG[c["code"]]]))
    return fails


def sel_predicate(c):
    """The add goes to a link only if that link is eligible and its
    CheckHtlcForward returned nil; it fails only if no link admits."""
    admit = [i for i in range(len(c["elig"])) if c["elig"][i] and c["checks"][i] == 0]
    if c["chosen"] >= 0:
        if c["chosen"] not in admit:
            return ["forwarded over link %d which is %s" % (
                c["chosen"], "not eligible" if not c["elig"][c["chosen"]]
                else "rejecting (check=%d)" % c["checks"][c["chosen"]])]
        return []
    if admit:
        return ["failed back although link(s) %s admit the htlc" % admit]
    return []


def inputs_of(c):
    return {k: v for k, v in c.items() if k not in ("case", "cls", "name") + PATH_OBS + PROV_OBS}


def judge_prov(ctx, vrows, suffix=""):
    """Policy-provenance predicates (c09_prov) on the rows of the localchans
    harness.  Returns (prov rows, boundary-HTLC rows, #prov rows with a finding)."""
    prov = [r for r in vrows if r.get("kind") == "prov"]
    hrows = [r for r in vrows if r.get("kind") == "fwd"]
    nbad = 0
    shown = {}
    for r in prov:
        fs = c09_prov.judge(r)
        if not fs:
            continue
        nbad += 1
        for thm, msg, sig in fs:
            key = sig.split(" ")[0]
            if shown.get(key, 0) >= 2 or sum(shown.values()) >= 5:
                continue
            shown[key] = shown.get(key, 0) + 1
            probes = [h for h in hrows if h["prov"] == r["scenario"] and h["step"] == r["step"]
                      and h["chan"] == r["chan"] and predicate(h)]
            ctx.violation("impl_violates_predicate", thm + suffix,
                          {"case": dict(r, replay_scenario=c09_prov.scenario_blob(prov, r)), "fails": [msg],
                           "boundary_htlcs_deciding_wrongly": [
                               {"probe": h["probe"], "out": h["out"], "in": h["in"], "result": h["name"],
                                "fails": predicate(h)} for h in probes[:4]]},
                          signature="policy provenance %s: %s" % (r["scenario"].split(":", 1)[-1], sig),
                          failing_input=True)
    for h in hrows:
        h["replay_scenario"] = None
    bad_h = [h for h in hrows if predicate(h)]
    for h in bad_h[:40]:
        h["replay_scenario"] = c09_prov.scenario_blob(prov, {"scenario": h["prov"]})
    return prov, hrows, nbad


def judge_linkcreate(ctx, lrows_all, suffix=""):
    lrows = [r for r in lrows_all if r.get("kind") == "linkcreate"]
    hrows = [r for r in lrows_all if r.get("kind") == "fwd"]
    nbad = 0
    for r in lrows:
        for thm, msg, sig in c09_prov.judge_linkcreate(r):
            nbad += 1
            if nbad > 3:
                continue
            inc = sig == "incomplete"
            probes = [h for h in hrows if h["prov"] == r["scenario"] and predicate(h)]
            ctx.violation("harness_failed" if inc else "impl_violates_predicate", thm + suffix,
                          {"case": dict(r, replay_linkcreate=True), "fails": [msg],
                           "boundary_htlcs_deciding_wrongly": [
                               {"probe": h["probe"], "out": h["out"], "in": h["in"], "result": h["name"],
                                "fails": predicate(h)} for h in probes[:4]]},
                          signature="policy provenance linkcreate %s: %s" % (r["scenario"], sig),
                          failing_input=not inc)
    return lrows, hrows, nbad


def replay_linkcreate(ctx, c):
    """--replay of a link-creation case: the (small, fully enumerated) stage is run again."""
    ctx.proof_stage(MODULE, THEOREMS, TARGETS)
    rc, trace, out = run_harness(ctx.uid("r"), "peer", PEER_HARNESS, "^TestVerifLinkPolicyFromGraph$")
    lall = read_jsonl(trace)
    if rc != 0 or not lall:
        ctx.violation("harness_failed", "TestVerifLinkPolicyFromGraph", {"log": out[-4000:]},
                      signature="harness", failing_input=False)
        return
    lrows, hrows, nbad = judge_linkcreate(ctx, lall, " (replay)")
    nh = 0
    for h in hrows:
        f = predicate(h)
        if f:
            nh += 1
            if nh <= 3:
                ctx.violation("impl_violates_predicate", "C09 replay", {"case": h, "fails": f},
                              signature="policy linkcreate %s %s: %s" % (h["probe"], h["name"], f[0]))
    ctx.note("replayed link creation from the graph: %d links, %d with findings; %d boundary HTLCs, %d decided "
             "against the advertised policy" % (len(lrows), nbad, len(hrows), nh))
    ctx.cov.update({"evaluations": len(hrows), "distinct_nontrivial": distinct_count(hrows, inputs_of),
                    "traces_validated_against_impl": len(hrows), "rule": "replayed link-creation stage",
                    "samples": [inputs_of(hrows[0])] if hrows else [],
                    "link_creation": c09_prov.coverage_linkcreate(lrows, hrows)})


def replay_prov(ctx, c):
    """--replay of a provenance case: the same world + update history through the
    real Manager.UpdatePolicy and the real links of the current tree."""
    ctx.proof_stage(MODULE, THEOREMS, TARGETS)
    blob = c["replay_scenario"]
    rc, trace, out = run_harness(ctx.uid("r"), PROV_PKG, PROV_HARNESS, "^TestVerifPolicyProvenance$",
                                 env={"VERIF_PV_SCENARIO": json.dumps(blob)})
    vrows = read_jsonl(trace)
    if rc != 0 or not vrows:
        ctx.violation("harness_failed", "TestVerifPolicyProvenance", {"log": out[-4000:]},
                      signature="harness", failing_input=False)
        return
    prov, hrows, nbad = judge_prov(ctx, vrows, " (replay)")
    nh = 0
    for h in hrows:
        f = predicate(h)
        if f:
            nh += 1
            if nh <= 3:
                ctx.violation("impl_violates_predicate", "C09 replay", {"case": h, "fails": f},
                              signature="policy prov %s %s: %s" % (h["probe"], h["name"], f[0]))
    ok, bad, logs = coq_mismatches(ctx.uid("r"), IMPORTS, [case_term(h) for h in hrows],
                                   mism="mismatches_all", scope="Z_scope")
    if bad or not ok:
        ctx.violation("correspondence_mismatch", "Policy.Exec.check_case (replay)",
                      {"case": hrows[bad[0][0]] if bad else None, "model": bad[:5], "logs": logs},
                      signature="policy mismatch replay", failing_input=bool(nh))
    ctx.note("replayed provenance scenario %s: %d channel states, %d with findings; %d boundary HTLCs, "
             "%d decided against the advertised policy" % (blob["name"], len(prov), nbad, len(hrows), nh))
    ctx.cov.update({"evaluations": len(hrows), "distinct_nontrivial": distinct_count(hrows, inputs_of),
                    "traces_validated_against_impl": len(hrows),
                    "rule": "single replayed provenance scenario", "samples": [inputs_of(hrows[0])],
                    "provenance": c09_prov.coverage(prov, hrows)})


def judge_paths(ctx, prows, theorem_suffix=""):
    """End-to-end / argument-plumbing predicates of the path stage.  Returns
    (#rows with a finding, rows that carry a policy decision)."""
    nbad = 0
    shown = 0
    for r in prows:
        fs = c09_paths.judge(r)
        if not fs:
            continue
        nbad += 1
        for kind, thm, msg, fi, sig in fs:
            if shown >= 4:
                break
            shown += 1
            ctx.violation(kind, thm + theorem_suffix,
                          {"case": r, "fails": [msg], "clauses": clauses(r) if r.get("code", -1) >= 0 else None},
                          signature="policy path %s: %s" % (r["path"], sig), failing_input=fi)
    return nbad, [r for r in prows if (r.get("calls") or []) and not r.get("note")]


def replay_path(ctx, c):
    """--replay of a path-stage case: the same scenario (path, policies, HTLC)
    is run again on the real link + switch of the current tree."""
    ctx.proof_stage(MODULE, THEOREMS, TARGETS)
    rc, trace, out = run_harness(ctx.uid("r"), "htlcswitch", HARNESS, "^TestVerifPolicyPaths$",
                                 env={"VERIF_PP_SPEC": json.dumps(c["spec"])})
    prows = read_jsonl(trace + ".paths")
    if rc != 0 or not prows:
        ctx.violation("harness_failed", "TestVerifPolicyPaths", {"log": out[-4000:]},
                      signature="harness", failing_input=False)
        return
    r = prows[0]
    ctx.note("replayed path case %s now yields %s, forwarded=%s (recorded: %s, forwarded=%s)" % (
        r["path"], r["name"], r.get("forwarded"), c.get("name"), c.get("forwarded")))
    _, dec = judge_paths(ctx, prows, " (replay)")
    for d in dec:
        f = predicate(d)
        ok, bad, logs = coq_mismatches(ctx.uid("r"), IMPORTS, [case_term(d)], mism="mismatches_all",
                                       scope="Z_scope")
        if f:
            ctx.violation("impl_violates_predicate", "C09 replay", {"case": d, "fails": f},
                          signature="policy path %s %s: %s" % (d["path"], d["name"], f[0]))
        if bad or not ok:
            ctx.violation("correspondence_mismatch", "Policy.Exec.check_case (replay)",
                          {"case": d, "model": bad, "logs": logs}, signature="policy mismatch replay",
                          failing_input=bool(f))
    ctx.cov.update({"evaluations": 1, "distinct_nontrivial": 1, "traces_validated_against_impl": 1,
                    "rule": "single replayed path scenario", "samples": [inputs_of(r)],
                    "paths": c09_paths.coverage(prows)})


def replay(ctx):
    """--replay: re-evaluate the recorded case against the CURRENT tree: the
    harness re-runs exactly that input (VERIF_REPLAY_CASE) on the real code."""
    d = json.load(open(ctx.replay))
    c = (d.get("detail") or {}).get("case")
    if not c or c.get("kind") == "select":
        ctx.note("replay file carries no single policy case; running the normal check")
        ctx.replay = None
        return run(ctx)
    if c.get("path") and c.get("spec"):
        return replay_path(ctx, c)
    if c.get("replay_scenario"):
        return replay_prov(ctx, c)
    if c.get("replay_linkcreate") or str(c.get("cls", "")).startswith("linkcreate:"):
        return replay_linkcreate(ctx, c)
    ctx.proof_stage(MODULE, THEOREMS, TARGETS)
    rc, trace, out = run_harness(ctx.uid("r"), "htlcswitch", HARNESS, "^TestVerifPolicy$",
                                 env={"VERIF_REPLAY_CASE": json.dumps(inputs_of(c)), "VERIF_CASES": "0"})
    rows = [r for r in read_jsonl(trace) if r.get("cls") == "replay"]
    if rc != 0 or not rows:
        ctx.violation("harness_failed", "TestVerifPolicy", {"log": out[-4000:]},
                      signature="harness", failing_input=False)
        return
    r = rows[0]
    f = predicate(r)
    ok, bad, logs = coq_mismatches(ctx.uid("r"), IMPORTS, [case_term(r)], mism="mismatches_all",
                                   scope="Z_scope")
    ctx.note("replayed case now yields %s (recorded: %s)" % (r["name"], c.get("name")))
    if f:
        ctx.violation("impl_violates_predicate", "C09 replay", {"case": r, "fails": f},
                      signature="policy %s %s: %s" % (r["kind"], r["name"], f[0]))
    if bad or not ok:
        ctx.violation("correspondence_mismatch", "Policy.Exec.check_case (replay)",
                      {"case": r, "model": bad, "logs": logs}, signature="policy mismatch replay",
                      failing_input=bool(f))
    ctx.cov.update({"evaluations": 1, "distinct_nontrivial": 1, "traces_validated_against_impl": 1,
                    "rule": "single replayed case", "samples": [inputs_of(r)]})


def run(ctx):
    pr = ctx.proof_stage(MODULE, THEOREMS, TARGETS, extra_trusted=[
        "environment answers (AuxTrafficShaper verdict/bandwidth, FetchLastChannelUpdate success, "
        "channel.AvailableBalance) are inputs of the model; theorems hold for all of them",
        "link selection theorem is over Section variables (eligibility and check result per link, "
        "rand.Intn as an arbitrary function)"])
    ncases = {}
    if ctx.replay:
        return replay(ctx)
    if ctx.thorough:
        ncases = {"VERIF_CASES": os.environ.get("VERIF_CASES", "400000")}
    # the two harness packages compile and run side by side
    from concurrent.futures import ThreadPoolExecutor
    with ThreadPoolExecutor(max_workers=3) as ex:
        fut_l = ex.submit(run_harness, ctx.uid("l"), "peer", PEER_HARNESS, "^TestVerifLinkPolicyFromGraph$",
                          timeout=900)
        fut_v = ex.submit(run_harness, ctx.uid("v"), PROV_PKG, PROV_HARNESS, "^TestVerifPolicyProvenance$",
                          timeout=900)
        rc, trace, out = run_harness(ctx.uid(), "htlcswitch", HARNESS, "^TestVerifPolicy(Paths)?$",
                                     env=ncases, timeout=1500)
        rcv, tracev, outv = fut_v.result()
        rcl, tracel, outl = fut_l.result()
    lall = read_jsonl(tracel)
    if rcl != 0 or not lall:
        ctx.violation("harness_failed", "TestVerifLinkPolicyFromGraph", {"log": outl[-4000:]},
                      signature="harness", failing_input=False)
        return
    vrows = read_jsonl(tracev)
    if rcv != 0 or not vrows:
        ctx.violation("harness_failed", "TestVerifPolicyProvenance", {"log": outv[-4000:]},
                      signature="harness", failing_input=False)
        return
    allrows = read_jsonl(trace)
    rows = [c for c in allrows if c["kind"] != "select"]
    sel = [c for c in allrows if c["kind"] == "select"]
    prows = sorted(read_jsonl(trace + ".paths"), key=lambda r: r["case"])
    if rc != 0 or not rows or not sel or not prows:
        ctx.violation("harness_failed", "TestVerifPolicy/TestVerifPolicyPaths", {"log": out[-4000:]},
                      signature="harness", failing_input=False)
        return
    # ---- path stage: the decision observed on every path by which a forwarded
    # ADD reaches the policy check (real link + switch, restarts, flaps).  The
    # rows that carry a decision join the ordinary rows: python predicate and
    # Coq model are evaluated on the CONFIGURED policies / the HTLC as sent.
    npath_bad, pdec = judge_paths(ctx, prows)
    first_path_row = len(rows)
    rows += pdec
    # ---- provenance stage: Manager.UpdatePolicy -> gossiper / switch -> real
    # links; the boundary HTLCs (recorded against the ADVERTISED policy) join
    # the ordinary rows as well.
    prov, hrows, nprov_bad = judge_prov(ctx, vrows)
    first_prov_row = len(rows)
    rows += hrows
    # ---- link creation from the graph (Brontide.loadActiveChannels): created
    # policy = own advertised edge policy; its boundary HTLCs join the rows too.
    lrows, lhrows, nlink_bad = judge_linkcreate(ctx, lall)
    first_link_row = len(rows)
    rows += lhrows
    # ---- property predicate on the implementation's answers
    nfail = 0
    judged = 0
    for c in rows:
        if in_D(c):
            judged += 1
        f = predicate(c)
        if f:
            nfail += 1
            if nfail <= 3:
                ctx.violation("impl_violates_predicate", "C09_sound/C09_complete/C09_failure_names_violated_rule",
                              {"case": c, "fails": f, "clauses": clauses(c)},
                              signature="policy %s %s: %s" % (
                                  ("path " + c["path"]) if c.get("path") else
                                  ("%s %s" % (c["cls"].split(":")[0], c["probe"])) if c.get("prov") else c["kind"], c["name"], f[0]))
    # ---- the Coq witnesses (theorems *_refuted_outside) replayed on the real code
    expect = {"witness:accept-expired": (0, 0), "witness:reject-valid": (5, 0),
              "witness:fee-overflow": (0, 0), "example:boundary": None}
    wit = {}
    for c in rows:
        if c["cls"] in expect:
            wit.setdefault(c["cls"], []).append(c["name"])
            exp = expect[c["cls"]]
            if exp is not None and (c["code"], c["detail"]) != exp:
                ctx.violation("correspondence_mismatch", "C09 witness " + c["cls"],
                              {"case": c, "expected": exp}, signature="policy witness " + c["cls"],
                              failing_input=False)
    if wit.get("example:boundary") != ["nil", "*lnwire.FailFeeInsufficient"]:
        ctx.violation("impl_violates_predicate", "C09 Examples.v boundary pair",
                      {"observed": wit.get("example:boundary")},
                      signature="policy example boundary")
    # ---- link selection (real Switch.handlePacketAdd over mock links)
    nsel_fail = 0
    for c in sel:
        f = sel_predicate(c)
        if f:
            nsel_fail += 1
            if nsel_fail <= 2:
                ctx.violation("impl_violates_predicate", "C09_switch_picks_only_ok",
                              {"case": c, "fails": f}, signature="select: " + f[0])
    sterms = ["S %s %s %d (%d) %d" % (clist([cbool(b) for b in c["elig"]]),
                                      clist([str(k) for k in c["checks"]]),
                                      c["req"], c["chosen"], c["reply"]) for c in sel]
    ok, sbad, logs = coq_mismatches(ctx.uid("s"), IMPORTS, sterms, shard=max(500, len(sterms) // 4 + 1),
                                    mism="sel_mismatches", scope="Z_scope")
    if not ok:
        ctx.violation("correspondence_mismatch", "Policy.Exec.sel_ok (model evaluation failed)",
                      {"logs": logs}, signature="model-eval", failing_input=False)
    for ci, _m in sbad[:2]:
        ctx.violation("correspondence_mismatch", "Policy.Exec.sel_ok",
                      {"case": sel[ci]}, signature="select mismatch",
                      failing_input=bool(sel_predicate(sel[ci])))
    # ---- correspondence, volume path: extracted model on EVERY case
    exe, xlog = build_ocaml_model()
    verd = None
    if exe:
        verd, xlog = ocaml_verdicts(exe, rows)
    if verd is None:
        ctx.violation("correspondence_mismatch", "Policy.Exec (extracted model failed to build/run)",
                      {"log": xlog[-3000:]}, signature="model-eval", failing_input=False)
        verd = []
    flagged = [i for i, v in enumerate(verd) if not (v[0] and v[1])]
    # ---- correspondence, kernel path (vm_compute inside Coq): a fixed slice,
    # the fixed witnesses, and every case the volume path flagged; the two
    # paths have to agree there (cross-check of the extraction).
    kslice = 3000 if ctx.thorough else 400
    stride = max(1, len(rows) // kslice)
    kidx = sorted(set(range(min(5, len(rows)))) | set(range(0, len(rows), stride)) | set(flagged[:60])
                  | set(range(first_path_row, first_prov_row))
                  | set(range(first_prov_row, first_link_row, max(1, len(hrows) // 300)))
                  | set(range(first_link_row, len(rows))))
    if not verd:
        kidx = list(range(len(rows)))       # extraction unavailable: everything in the kernel
    terms = [case_term(rows[i]) for i in kidx]
    ok, kbad, logs = coq_mismatches(ctx.uid(), IMPORTS, terms, shard=max(100, len(terms) // 8 + 1),
                                    mism="mismatches_all", scope="Z_scope")
    if not ok:
        ctx.violation("correspondence_mismatch", "Policy.Exec (model evaluation failed)",
                      {"logs": logs}, signature="model-eval", failing_input=False)
    kflag = {}
    for j, m in kbad:
        kflag.setdefault(kidx[j], []).append(m)
    if verd:
        for i in kidx:
            if (i in kflag) != (not (verd[i][0] and verd[i][1])):
                ctx.violation("correspondence_mismatch", "extracted model vs kernel evaluation disagree",
                              {"case": rows[i], "kernel": kflag.get(i), "extracted": verd[i]},
                              signature="extraction", failing_input=False)
                break
    bad = [(i, m) for i, ms in sorted(kflag.items()) for m in ms]
    nmism = len(flagged) if verd else len(kflag)
    shown = 0
    for ci, m in bad:
        c = rows[ci]
        if shown >= 3:
            break
        shown += 1
        if m == [99]:
            ctx.violation("correspondence_mismatch", "C09_machine_eq_spec (machine<>spec inside D)",
                          {"case": c}, signature="policy machine/spec", failing_input=True)
            continue
        ctx.violation("correspondence_mismatch", "Policy.Exec.check_case",
                      {"case": c, "implementation": [c["code"], c["detail"], c["arg"]],
                       "model": m, "model_name": WIRE[m[0]] + DETAIL.get(m[1], "?"),
                       "clauses": clauses(c), "cases_disagreeing": nmism},
                      signature="policy mismatch impl=%s model=%s" % (c["name"], WIRE[m[0]]),
                      failing_input=bool(predicate(c)))
    if not pr["ok"] and not ctx.violations:
        # proof stage broke but nothing concrete yet: directed search with a
        # different seed and 5x the cases (predicate + extracted model)
        rc2, trace2, _ = run_harness(ctx.uid("d"), "htlcswitch", HARNESS, "^TestVerifPolicy$",
                                     env={"VERIF_CASES": str(5 * 40000), "VERIF_SEED": str(ctx.seed + 7919)},
                                     timeout=1500)
        rows2 = [c for c in read_jsonl(trace2) if c["kind"] != "select"] if rc2 == 0 else []
        found = 0
        v2 = ocaml_verdicts(exe, rows2)[0] if (exe and rows2) else None
        for i, c in enumerate(rows2):
            f = predicate(c)
            if f or (v2 and not (v2[i][0] and v2[i][1])):
                found += 1
                ctx.violation("impl_violates_predicate" if f else "correspondence_mismatch",
                              "directed search after broken proof stage",
                              {"case": c, "fails": f}, signature="policy directed: %s" % (f[0] if f else c["name"]),
                              failing_input=bool(f))
                if found >= 2:
                    break
        ctx.cov["directed_search_cases"] = len(rows2)
    if not pr["ok"] and not any(json.load(open(v)).get("failing_input_found") for v in ctx.violations):
        ctx.violation("proof_broken", ", ".join(pr["broken"]) or "Policy build",
                      {"log": pr["log"][-4000:]}, signature="proof", failing_input=False)
    # ---- coverage
    def hist(f):
        h = {}
        for c in rows:
            k = f(c)
            h[k] = h.get(k, 0) + 1
        return dict(sorted(h.items(), key=lambda kv: str(kv[0])))
    bh = {}
    for c in rows:
        for k, v in boundary_offsets(c).items():
            h = bh.setdefault(k, {"-1": 0, "0": 0, "+1": 0, "overflow_side": 0})
            if -1 <= v <= 1:
                h[{-1: "-1", 0: "0", 1: "+1"}[v]] += 1
            if k.endswith(("2^32", "2^64", "2^63")) and v >= 0:
                h["overflow_side"] += 1
    ctx.cov.update({
        "evaluations": len(rows),
        "boundary_hits": bh,
        "distinct_nontrivial": distinct_count(rows, inputs_of),
        "rule": "every case is one call of the real CheckHtlcForward/CheckHtlcTransit; "
                "distinct by the full input tuple (policy, link cfg, env answers, htlc)",
        "traces_validated_against_impl": len(rows),
        "cases_in_D_judged_by_predicate": judged,
        "predicate_failures": nfail,
        "generator_classes": hist(lambda c: c["cls"]),
        "results": hist(lambda c: c["name"]),
        "results_in_D": hist(lambda c: c["name"] if in_D(c) else "(outside D)"),
        "kinds": hist(lambda c: c["kind"]),
        "aux_modes": hist(lambda c: c["aux"]),
        "samples": [inputs_of(rows[0]), inputs_of(rows[len(rows) // 2])],
        "correspondence_mismatches": nmism,
        "model_paths": {"extracted_ocaml_cases": len(verd), "kernel_vm_compute_cases": len(kidx),
                        "kernel_flagged": len(kflag)},
        "selection_cases": len(sel),
        "selection_distinct": distinct_count(sel, lambda c: [c["elig"], c["checks"], c["req"]]),
        "selection_outcomes": {k: sum(1 for c in sel if c["name"] == k)
                               for k in sorted({c["name"] for c in sel})},
        "selection_mismatches": len(sbad) + nsel_fail,
        "witness_replays_on_real_code": wit,
        "provenance": dict(c09_prov.coverage(prov, hrows), channel_states_with_findings=nprov_bad),
        "link_creation": dict(c09_prov.coverage_linkcreate(lrows, lhrows), links_with_findings=nlink_bad),
        "paths": dict(c09_paths.coverage(prows), rows_with_findings=npath_bad,
                      rows_joined_to_predicate_and_model=len(pdec)),
    })
    ctx.assumptions += [
        "D (domain of C09_machine_eq_spec): in < 2^63, out <= 2^42 msat (43.98 BTC), base fee < 2^32, "
        "fee rate <= 10^6 ppm, inbound base any int32, |inbound rate| <= 10^6 ppm, height, "
        "OutgoingCltvRejectDelta, MaxOutgoingCltvExpiry < 2^31; outside D the machine model is still "
        "compared with the implementation but the unbounded rule is not claimed",
        "FailAliasUpdate returns nil (ordinary channel); no goroutines involved in the decision function "
        "stage; the path stage runs lnd's three-hop test fixture (mock peers/onion decoder, real "
        "channels, links, switch, circuit map, forwarding packages); process death is emulated by "
        "losing the in-memory batch at the stop point and restarting every node from its database",
    ]
    if ctx.thorough:
        ctx.coqchk(["LV.Policy.Props"])
